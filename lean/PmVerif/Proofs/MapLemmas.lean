/-
Proofs/MapLemmas.lean — helper lemmas for property C14 (the four `BindMap` implementations).
-/
import PmVerif.Spec.MapSpec
namespace Pm

/-! ### Histories, generically -/

section Run
variable {K V M : Type}

theorem MapOps.run_nil (O : MapOps K V M) (m : M) : O.run m [] = some m := rfl

theorem MapOps.run_cons (O : MapOps K V M) (m : M) (op : MapOp K V) (rest : List (MapOp K V)) :
    O.run m (op :: rest) = (O.step m op).bind (fun m' => O.run m' rest) := by
  cases h : O.step m op <;> simp [MapOps.run, h]

/-- A `bind` step either succeeds or leaves the map as it was. -/
theorem MapOps.step_bind (O : MapOps K V M) (m m' : M) (k : K) (v : V)
    (h : O.step m (.bind k v) = some m') : O.bind m k v = .ok m' ∨ m' = m := by
  cases hb : O.bind m k v with
  | ok m1 => simp [MapOps.step, hb] at h; exact .inl (h ▸ rfl)
  | error e => simp [MapOps.step, hb] at h; exact .inr h.symm

/-- An invariant of every step is an invariant of every history. -/
theorem MapOps.run_inv (O : MapOps K V M) (P : M → Prop)
    (hbind : ∀ m k v m', P m → O.bind m k v = .ok m' → P m')
    (hret : ∀ m order m', P m → O.retain m order = some m' → P m') :
    ∀ (ops : List (MapOp K V)) (m m' : M), P m → O.run m ops = some m' → P m' := by
  intro ops
  induction ops with
  | nil => intro m m' hP h; simp [MapOps.run] at h; exact h ▸ hP
  | cons op rest ih =>
    intro m m' hP h
    rw [MapOps.run_cons] at h
    cases hs : O.step m op with
    | none => simp [hs] at h
    | some m1 =>
      rw [hs] at h
      refine ih m1 m' ?_ h
      cases op with
      | bind k v =>
        rcases O.step_bind m m1 k v hs with hb | rfl
        · exact hbind m k v m1 hP hb
        · exact hP
      | retain order => exact hret m order m1 hP hs

/-- Stability of one key along a history whose `retain`s all list it. -/
theorem MapOps.run_stable (O : MapOps K V M) (k : K) (v : V)
    (hbind : ∀ m k' v' m', O.bind m k' v' = .ok m' → O.get m k = some v → O.get m' k = some v)
    (hret : ∀ m order m', O.retain m order = some m' → k ∈ order → O.get m k = some v →
      O.get m' k = some v) :
    ∀ (ops : List (MapOp K V)) (m m' : M), (∀ order, MapOp.retain order ∈ ops → k ∈ order) →
      O.get m k = some v → O.run m ops = some m' → O.get m' k = some v := by
  intro ops
  induction ops with
  | nil => intro m m' _ hg h; simp [MapOps.run] at h; exact h ▸ hg
  | cons op rest ih =>
    intro m m' hl hg h
    rw [MapOps.run_cons] at h
    cases hs : O.step m op with
    | none => simp [hs] at h
    | some m1 =>
      rw [hs] at h
      refine ih m1 m' (fun o ho => hl o (List.mem_cons_of_mem _ ho)) ?_ h
      cases op with
      | bind k' v' =>
        rcases O.step_bind m m1 k' v' hs with hb | rfl
        · exact hbind m k' v' m1 hb hg
        · exact hg
      | retain order => exact hret m order m1 hs (hl order (List.mem_cons_self ..)) hg

end Run

/-! ### Generic maps -/

section Assoc
variable {K V : Type} [DecidableEq K]

theorem alGet_append_of_some (m n : List (K × V)) (k : K) (v : V) (h : alGet m k = some v) :
    alGet (m ++ n) k = some v := by
  induction m with
  | nil => simp [alGet] at h
  | cons kv m ih =>
    obtain ⟨k', v'⟩ := kv
    by_cases hk : k' = k
    · simpa [alGet, hk] using h
    · simp only [alGet, hk, if_false, List.cons_append] at h ⊢
      exact ih h

theorem alGet_append_of_none (m n : List (K × V)) (k : K) (h : alGet m k = none) :
    alGet (m ++ n) k = alGet n k := by
  induction m with
  | nil => rfl
  | cons kv m ih =>
    obtain ⟨k', v'⟩ := kv
    by_cases hk : k' = k
    · simp [alGet, hk] at h
    · simp only [alGet, hk, if_false, List.cons_append] at h ⊢
      exact ih h

theorem alGet_singleton (k0 k : K) (v0 : V) :
    alGet [(k0, v0)] k = if k0 = k then some v0 else none := rfl

theorem alGet_retain (m : List (K × V)) (ks : List K) (k : K) :
    alGet (alRetain m ks) k = if k ∈ ks then alGet m k else none := by
  unfold alRetain
  induction m with
  | nil => simp [alGet]
  | cons kv m ih =>
    obtain ⟨k', v'⟩ := kv
    by_cases hm : k' ∈ ks
    · simp only [List.filter_cons, hm, decide_true, if_true, alGet]
      by_cases hk : k' = k
      · subst hk; simp [hm]
      · simp only [hk, if_false]; exact ih
    · simp only [List.filter_cons, hm, decide_false, alGet]
      by_cases hk : k' = k
      · subst hk; simp [hm] at ih ⊢; exact ih
      · simp only [hk, if_false]; exact ih

variable [DecidableEq V]

/-- The two ways a generic `bind` succeeds. -/
theorem alBind_ok_iff (m m' : List (K × V)) (k : K) (v : V) :
    alBind m k v = .ok m' ↔
      (alGet m k = some v ∧ m' = m) ∨ (alGet m k = none ∧ m' = m ++ [(k, v)]) := by
  unfold alBind
  cases h : alGet m k with
  | none => simp [eq_comm]
  | some w =>
    by_cases hw : w = v
    · simp [hw, eq_comm]
    · simp [hw]

theorem assoc_step_total (m : List (K × V)) (op : MapOp K V) :
    ∃ m', assocMap.step m op = some m' := by
  cases op with
  | bind k v =>
    cases hb : alBind m k v <;> simp [MapOps.step, assocMap, hb]
  | retain order => exact ⟨_, rfl⟩

theorem assoc_run_total (ops : List (MapOp K V)) :
    ∀ m : List (K × V), ∃ m', assocMap.run m ops = some m' := by
  induction ops with
  | nil => intro m; exact ⟨m, rfl⟩
  | cons op rest ih =>
    intro m
    obtain ⟨m1, h1⟩ := assoc_step_total m op
    obtain ⟨m', h'⟩ := ih m1
    exact ⟨m', by rw [MapOps.run_cons, h1]; exact h'⟩

/-- `get` never invents a key or a value. -/
theorem assoc_run_only_bound (k : K) (v : V) :
    ∀ (ops : List (MapOp K V)) (m m' : List (K × V)), assocMap.run m ops = some m' →
      alGet m' k = some v → alGet m k = some v ∨ MapOp.bind k v ∈ ops := by
  intro ops
  induction ops with
  | nil => intro m m' h hg; simp [MapOps.run] at h; subst h; exact .inl hg
  | cons op rest ih =>
    intro m m' h hg
    rw [MapOps.run_cons] at h
    cases hs : assocMap.step m op with
    | none => simp [hs] at h
    | some m1 =>
      rw [hs] at h
      rcases ih m1 m' h hg with h1 | h1
      · cases op with
        | bind k0 v0 =>
          rcases assocMap.step_bind m m1 k0 v0 hs with hb | rfl
          · rcases (alBind_ok_iff m m1 k0 v0).1 hb with ⟨_, rfl⟩ | ⟨_, rfl⟩
            · exact .inl h1
            · cases hmk : alGet m k with
              | some w =>
                rw [alGet_append_of_some m _ k w hmk] at h1
                exact .inl h1
              | none =>
                rw [alGet_append_of_none m _ k hmk, alGet_singleton] at h1
                by_cases hk : k0 = k
                · simp only [hk, if_true, Option.some.injEq] at h1
                  right; rw [hk, h1]; exact List.mem_cons_self ..
                · simp [hk] at h1
          · exact .inl h1
        | retain order =>
          have : m1 = alRetain m order := by
            have : some (alRetain m order) = some m1 := hs
            exact (Option.some.inj this).symm
          rw [this, alGet_retain] at h1
          by_cases hk : k ∈ order
          · simp only [hk, if_true] at h1; exact .inl h1
          · simp [hk] at h1
      · exact .inr (List.mem_cons_of_mem _ h1)

end Assoc

/-! ### The default `retain_keys`, generically -/

section Retain
variable {K V M : Type} (getP : M → K → Option (Option V)) (bind : M → K → V → Except BindErr M)

theorem retainDefault_cons_panic (m acc : M) (k : K) (ks : List K) (h : getP m k = none) :
    retainDefault getP bind m (k :: ks) acc = none := by
  simp [retainDefault, h]

theorem retainDefault_cons_skip (m acc : M) (k : K) (ks : List K) (h : getP m k = some none) :
    retainDefault getP bind m (k :: ks) acc = retainDefault getP bind m ks acc := by
  simp [retainDefault, h]

theorem retainDefault_cons_bind (m acc acc' : M) (k : K) (v : V) (ks : List K)
    (h : getP m k = some (some v)) (hb : bind acc k v = .ok acc') :
    retainDefault getP bind m (k :: ks) acc = retainDefault getP bind m ks acc' := by
  simp [retainDefault, h, hb]

theorem retainDefault_cons_err (m acc : M) (k : K) (v : V) (e : BindErr) (ks : List K)
    (h : getP m k = some (some v)) (hb : bind acc k v = .error e) :
    retainDefault getP bind m (k :: ks) acc = none := by
  simp [retainDefault, h, hb]

/-- If no listed key is bound, nothing is re-bound. -/
theorem retainDefault_skip_all (m acc : M) (ks : List K) (h : ∀ k ∈ ks, getP m k = some none) :
    retainDefault getP bind m ks acc = some acc := by
  induction ks with
  | nil => rfl
  | cons k ks ih =>
    rw [retainDefault_cons_skip getP bind m acc k ks (h k (List.mem_cons_self ..))]
    exact ih (fun k' hk' => h k' (List.mem_cons_of_mem _ hk'))

/-- Whenever the rebuild does not panic it preserves `get` on the listed bound keys, provided
each re-`bind` of a value read from `m` is read back and keeps what the accumulator had. `P` is
an invariant linking the accumulator to `m`. -/
theorem retainDefault_preserves (get : M → K → Option V) (m : M) (P : M → Prop)
    (hstep : ∀ acc k v acc', P acc → getP m k = some (some v) → bind acc k v = .ok acc' →
      P acc' ∧ get acc' k = some v ∧ ∀ k' v', get acc k' = some v' → get acc' k' = some v') :
    ∀ (ks : List K) (acc m' : M), P acc → retainDefault getP bind m ks acc = some m' →
      P m' ∧ (∀ k ∈ ks, ∀ v, getP m k = some (some v) → get m' k = some v) ∧
        (∀ k' v', get acc k' = some v' → get m' k' = some v') := by
  intro ks
  induction ks with
  | nil =>
    intro acc m' hP h
    simp [retainDefault] at h
    subst h
    exact ⟨hP, by simp, fun _ _ h => h⟩
  | cons k ks ih =>
    intro acc m' hP h
    cases hg : getP m k with
    | none => rw [retainDefault_cons_panic getP bind m acc k ks hg] at h; simp at h
    | some r =>
      cases r with
      | none =>
        rw [retainDefault_cons_skip getP bind m acc k ks hg] at h
        obtain ⟨h1, h2, h3⟩ := ih acc m' hP h
        refine ⟨h1, ?_, h3⟩
        intro k' hk' v hv
        rcases List.mem_cons.1 hk' with rfl | hk'
        · rw [hg] at hv; simp at hv
        · exact h2 k' hk' v hv
      | some v =>
        cases hb : bind acc k v with
        | error e => rw [retainDefault_cons_err getP bind m acc k v e ks hg hb] at h; simp at h
        | ok acc' =>
          rw [retainDefault_cons_bind getP bind m acc acc' k v ks hg hb] at h
          obtain ⟨hP', hk, hkeep⟩ := hstep acc k v acc' hP hg hb
          obtain ⟨h1, h2, h3⟩ := ih acc' m' hP' h
          refine ⟨h1, ?_, fun k' v' hv' => h3 k' v' (hkeep k' v' hv')⟩
          intro k' hk' w hw
          rcases List.mem_cons.1 hk' with rfl | hk'
          · rw [hg] at hw
            simp only [Option.some.injEq] at hw
            subst hw
            exact h3 _ _ hk
          · exact h2 k' hk' w hw

end Retain

/-! ### `StringPositionMap` -/

/-- The panic-aware reading of `StringPositionMap::get` (it never panics). -/
abbrev strGetP (m : StrPos) (k : Nat) : Option (Option Nat) := some (StrPos.get m k)

theorem strPosMap_retain (m : StrPos) (ks : List Nat) :
    strPosMap.retain m ks = retainDefault strGetP StrPos.bind m ks .unbound := rfl

theorem str_get_bound (s l k : Nat) :
    StrPos.get (.bound s l) k = if k < l then some (s + k) else none := rfl

theorem str_get_eq_some (m : StrPos) (k v : Nat) :
    StrPos.get m k = some v ↔ ∃ start len, m = .bound start len ∧ k < len ∧ v = start + k := by
  cases m with
  | unbound => simp [StrPos.get]
  | bound s l =>
    rw [str_get_bound]
    by_cases hk : k < l
    · simp only [hk, if_true, Option.some.injEq, StrPos.bound.injEq]
      constructor
      · intro h; exact ⟨s, l, ⟨rfl, rfl⟩, hk, h.symm⟩
      · rintro ⟨s', l', ⟨rfl, rfl⟩, _, h⟩; exact h.symm
    · simp only [hk, if_false, StrPos.bound.injEq]
      constructor
      · intro h; cases h
      · rintro ⟨s', l', ⟨rfl, rfl⟩, h, _⟩; exact absurd h hk

theorem str_bind_unbound_ok (k v : Nat) (m' : StrPos) (h : StrPos.bind .unbound k v = .ok m') :
    k = 0 ∧ m' = .bound v 1 := by
  by_cases hk : k = 0
  · simp [StrPos.bind, hk] at h; exact ⟨hk, h.symm⟩
  · simp [StrPos.bind, hk] at h

theorem str_bind_bound_ok (s l k v : Nat) (m' : StrPos) (h : StrPos.bind (.bound s l) k v = .ok m') :
    k ≠ 0 ∧ m' = .bound s (max l (k + 1)) := by
  by_cases hk : k = 0
  · simp [StrPos.bind, hk] at h
  · simp [StrPos.bind, hk] at h; exact ⟨hk, h.symm⟩

theorem str_bind_bound_of_ne (s l k v : Nat) (hk : k ≠ 0) :
    StrPos.bind (.bound s l) k v = .ok (.bound s (max l (k + 1))) := by
  simp [StrPos.bind, hk]

theorem str_bind_keeps (m m' : StrPos) (k v k' v' : Nat) (hb : StrPos.bind m k v = .ok m')
    (hg : StrPos.get m k' = some v') : StrPos.get m' k' = some v' := by
  cases m with
  | unbound => simp [StrPos.get] at hg
  | bound s l =>
    obtain ⟨_, rfl⟩ := str_bind_bound_ok s l k v m' hb
    rw [str_get_bound] at hg ⊢
    by_cases hk : k' < l
    · have : k' < max l (k + 1) := by omega
      simpa [hk, this] using hg
    · simp [hk] at hg

/-- The `len ≥ 1` invariant. -/
def StrInv : StrPos → Prop
  | .unbound => True
  | .bound _ len => 1 ≤ len

theorem strInv_iff (m : StrPos) : StrInv m ↔ ∀ s l, m = .bound s l → 1 ≤ l := by
  cases m with
  | unbound => simp [StrInv]
  | bound s l =>
    simp only [StrInv, StrPos.bound.injEq]
    exact ⟨fun h _ _ e => e.2 ▸ h, fun h => h s l ⟨rfl, rfl⟩⟩

theorem strInv_bind (m m' : StrPos) (k v : Nat) (hi : StrInv m) (hb : StrPos.bind m k v = .ok m') :
    StrInv m' := by
  cases m with
  | unbound => obtain ⟨_, rfl⟩ := str_bind_unbound_ok k v m' hb; exact Nat.le_refl 1
  | bound s l =>
    obtain ⟨_, rfl⟩ := str_bind_bound_ok s l k v m' hb
    show 1 ≤ max l (k + 1)
    omega

/-- The accumulator of a rebuild of `m` is unbound or shares `m`'s start. -/
def StrAcc (m acc : StrPos) : Prop :=
  acc = .unbound ∨ ∃ s l la, m = .bound s l ∧ acc = .bound s la

theorem str_retain_step (m acc acc' : StrPos) (k v : Nat) (hP : StrAcc m acc ∧ StrInv acc)
    (hg : strGetP m k = some (some v)) (hb : StrPos.bind acc k v = .ok acc') :
    (StrAcc m acc' ∧ StrInv acc') ∧ StrPos.get acc' k = some v ∧
      ∀ k' v', StrPos.get acc k' = some v' → StrPos.get acc' k' = some v' := by
  have hg' : StrPos.get m k = some v := by simpa [strGetP] using hg
  obtain ⟨s, l, rfl, hkl, rfl⟩ := (str_get_eq_some m k v).1 hg'
  refine ⟨⟨?_, strInv_bind acc acc' k _ hP.2 hb⟩, ?_, fun k' v' => str_bind_keeps acc acc' k _ k' v' hb⟩
  · rcases hP.1 with rfl | ⟨s', l', la, hm, rfl⟩
    · obtain ⟨rfl, rfl⟩ := str_bind_unbound_ok k _ acc' hb
      exact .inr ⟨s, l, 1, rfl, rfl⟩
    · obtain ⟨rfl, rfl⟩ := StrPos.bound.inj hm
      obtain ⟨_, rfl⟩ := str_bind_bound_ok s la k _ acc' hb
      exact .inr ⟨s, l, _, rfl, rfl⟩
  · rcases hP.1 with rfl | ⟨s', l', la, hm, rfl⟩
    · obtain ⟨rfl, rfl⟩ := str_bind_unbound_ok k _ acc' hb
      simp [str_get_bound]
    · obtain ⟨rfl, rfl⟩ := StrPos.bound.inj hm
      obtain ⟨_, rfl⟩ := str_bind_bound_ok s la k _ acc' hb
      have : k < max la (k + 1) := by omega
      simp [str_get_bound, this]

/-- A rebuild that does not panic preserves `get` on the listed keys and the invariant —
for every map and every order. -/
theorem str_retain_preserves (m m' : StrPos) (order : List Nat)
    (h : strPosMap.retain m order = some m') :
    StrInv m' ∧ ∀ k ∈ order, ∀ v, StrPos.get m k = some v → StrPos.get m' k = some v := by
  rw [strPosMap_retain] at h
  obtain ⟨h1, h2, _⟩ := retainDefault_preserves strGetP StrPos.bind StrPos.get m
    (fun acc => StrAcc m acc ∧ StrInv acc) (fun acc k v acc' => str_retain_step m acc acc' k v) order .unbound m'
    ⟨.inl rfl, trivial⟩ h
  exact ⟨h1.2, fun k hk v hv => h2 k hk v (by simp [strGetP, hv])⟩

/-- The rebuild loop once the start key has been re-bound, when it is not listed again. -/
theorem str_loop_some (s l : Nat) : ∀ (ks : List Nat) (la : Nat), 0 ∉ ks →
    ∃ la', retainDefault strGetP StrPos.bind (.bound s l) ks (.bound s la) = some (.bound s la') ∧
      la ≤ la' ∧ (∀ k ∈ ks, k < l → k < la') ∧ (la' = la ∨ ∃ k ∈ ks, k < l ∧ la' = k + 1) := by
  intro ks
  induction ks with
  | nil => intro la _; exact ⟨la, rfl, Nat.le_refl _, by simp, .inl rfl⟩
  | cons k ks ih =>
    intro la h0
    have hk0 : k ≠ 0 := fun e => h0 (e ▸ List.mem_cons_self ..)
    have h0' : 0 ∉ ks := fun e => h0 (List.mem_cons_of_mem _ e)
    by_cases hk : k < l
    · have hg : strGetP (.bound s l) k = some (some (s + k)) := by simp [strGetP, str_get_bound, hk]
      rw [retainDefault_cons_bind strGetP StrPos.bind _ _ _ k _ ks hg (str_bind_bound_of_ne s la k _ hk0)]
      obtain ⟨la', e, h1, h2, h3⟩ := ih (max la (k + 1)) h0'
      refine ⟨la', e, by omega, ?_, ?_⟩
      · intro k' hk' hl
        rcases List.mem_cons.1 hk' with rfl | hk'
        · omega
        · exact h2 k' hk' hl
      · rcases h3 with h3 | ⟨k', hk', hl, e'⟩
        · by_cases hc : la ≤ k
          · exact .inr ⟨k, List.mem_cons_self .., hk, by omega⟩
          · exact .inl (by omega)
        · exact .inr ⟨k', List.mem_cons_of_mem _ hk', hl, e'⟩
    · have hg : strGetP (.bound s l) k = some none := by simp [strGetP, str_get_bound, hk]
      rw [retainDefault_cons_skip strGetP StrPos.bind _ _ k ks hg]
      obtain ⟨la', e, h1, h2, h3⟩ := ih la h0'
      refine ⟨la', e, h1, ?_, ?_⟩
      · intro k' hk' hl
        rcases List.mem_cons.1 hk' with rfl | hk'
        · exact absurd hl hk
        · exact h2 k' hk' hl
      · rcases h3 with h3 | ⟨k', hk', hl, e'⟩
        · exact .inl h3
        · exact .inr ⟨k', List.mem_cons_of_mem _ hk', hl, e'⟩

/-- Listing the start key a second time panics (`VariableExists` on the re-bind). -/
theorem str_loop_none (s l : Nat) (hl : 0 < l) : ∀ (ks : List Nat) (la : Nat), 0 ∈ ks →
    retainDefault strGetP StrPos.bind (.bound s l) ks (.bound s la) = none := by
  intro ks
  induction ks with
  | nil => intro la h; simp at h
  | cons k ks ih =>
    intro la h0
    by_cases hk0 : k = 0
    · subst hk0
      have hg : strGetP (.bound s l) 0 = some (some (s + 0)) := by simp [strGetP, str_get_bound, hl]
      exact retainDefault_cons_err strGetP StrPos.bind _ _ 0 _ .variableExists ks hg (by simp [StrPos.bind])
    · have h0' : 0 ∈ ks := by
        rcases List.mem_cons.1 h0 with e | e
        · exact absurd e.symm hk0
        · exact e
      by_cases hk : k < l
      · have hg : strGetP (.bound s l) k = some (some (s + k)) := by simp [strGetP, str_get_bound, hk]
        rw [retainDefault_cons_bind strGetP StrPos.bind _ _ _ k _ ks hg (str_bind_bound_of_ne s la k _ hk0)]
        exact ih _ h0'
      · have hg : strGetP (.bound s l) k = some none := by simp [strGetP, str_get_bound, hk]
        rw [retainDefault_cons_skip strGetP StrPos.bind _ _ k ks hg]
        exact ih _ h0'

/-- First step of a rebuild whose order starts with the start key, on a bound map. -/
theorem str_retain_head (s l : Nat) (hl : 0 < l) (rest : List Nat) :
    strPosMap.retain (.bound s l) (0 :: rest)
      = retainDefault strGetP StrPos.bind (.bound s l) rest (.bound s 1) := by
  rw [strPosMap_retain]
  have hg : strGetP (.bound s l) 0 = some (some s) := by simp [strGetP, str_get_bound, hl]
  exact retainDefault_cons_bind strGetP StrPos.bind _ _ _ 0 _ rest hg (by simp [StrPos.bind])

theorem str_retain_all_none (m : StrPos) (order : List Nat)
    (h : ∀ k ∈ order, StrPos.get m k = none) : strPosMap.retain m order = some .unbound := by
  rw [strPosMap_retain]
  exact retainDefault_skip_all strGetP StrPos.bind m .unbound order
    (fun k hk => by simp [strGetP, h k hk])

/-- The rebuild from an order starting with the start key, listed once. -/
theorem str_retain_start_first (m : StrPos) (hi : StrInv m) (rest : List Nat) (h0 : 0 ∉ rest) :
    ∃ m', strPosMap.retain m (0 :: rest) = some m' ∧
      ∀ k ∈ 0 :: rest, StrPos.get m' k = StrPos.get m k := by
  cases m with
  | unbound =>
    exact ⟨.unbound, str_retain_all_none _ _ (fun _ _ => rfl), fun _ _ => rfl⟩
  | bound s l =>
    have hl : 0 < l := hi
    obtain ⟨la', e, h1, h2, h3⟩ := str_loop_some s l rest 1 h0
    refine ⟨.bound s la', by rw [str_retain_head s l hl, e], ?_⟩
    intro k hk
    rw [str_get_bound, str_get_bound]
    by_cases hkl : k < l
    · have : k < la' := by
        rcases List.mem_cons.1 hk with rfl | hk
        · omega
        · exact h2 k hk hkl
      simp [hkl, this]
    · have : ¬ k < la' := by
        rcases h3 with h3 | ⟨k', _, hl', e'⟩ <;> omega
      simp [hkl, this]

/-- The result of a rebuild starting with the start key depends only on the *set* of listed
keys. -/
theorem str_retain_mem_congr (m : StrPos) (r1 r2 : List Nat) (h : ∀ k, k ∈ r1 ↔ k ∈ r2) :
    strPosMap.retain m (0 :: r1) = strPosMap.retain m (0 :: r2) := by
  cases m with
  | unbound =>
    rw [str_retain_all_none _ _ (fun _ _ => rfl), str_retain_all_none _ _ (fun _ _ => rfl)]
  | bound s l =>
    by_cases hl : 0 < l
    · rw [str_retain_head s l hl, str_retain_head s l hl]
      by_cases h0 : 0 ∈ r1
      · rw [str_loop_none s l hl r1 1 h0, str_loop_none s l hl r2 1 ((h 0).1 h0)]
      · obtain ⟨a1, e1, p1, q1, t1⟩ := str_loop_some s l r1 1 h0
        obtain ⟨a2, e2, p2, q2, t2⟩ := str_loop_some s l r2 1 (fun e => h0 ((h 0).2 e))
        rw [e1, e2]
        have : a1 = a2 := by
          apply Nat.le_antisymm
          · rcases t1 with t1 | ⟨k, hk, hkl, e⟩
            · omega
            · have := q2 k ((h k).1 hk) hkl; omega
          · rcases t2 with t2 | ⟨k, hk, hkl, e⟩
            · omega
            · have := q1 k ((h k).2 hk) hkl; omega
        rw [this]
    · have hn : ∀ (o : List Nat), ∀ k ∈ o, StrPos.get (.bound s l) k = none := by
        intro o k _; rw [str_get_bound]; simp; omega
      rw [str_retain_all_none _ _ (hn _), str_retain_all_none _ _ (hn _)]

/-- `retain_keys` does not panic and preserves `get` on the listed keys when the start key
comes first and is listed once. -/
theorem str_retain_ok (m : StrPos) (order : List Nat) (hi : StrInv m)
    (hdup : ∀ rest, order = 0 :: rest → 0 ∉ rest)
    (hfirst : order = [] ∨ order.head? = some 0 ∨ ∀ k ∈ order, StrPos.get m k = none) :
    ∃ m', strPosMap.retain m order = some m' ∧ ∀ k ∈ order, StrPos.get m' k = StrPos.get m k := by
  rcases hfirst with rfl | h | h
  · exact ⟨.unbound, rfl, by simp⟩
  · cases order with
    | nil => simp at h
    | cons k rest =>
      simp only [List.head?_cons, Option.some.injEq] at h
      subst h
      exact str_retain_start_first m hi rest (hdup rest rfl)
  · exact ⟨.unbound, str_retain_all_none m order h, fun k hk => (h k hk).symm ▸ rfl⟩

/-! ### `MatrixPositionMap` -/

theorem addSigned_eq_some (a : Nat) (d : Int) (r : Nat) :
    addSigned a d = some r ↔ 0 ≤ (a : Int) + d ∧ (r : Int) = (a : Int) + d := by
  unfold addSigned
  by_cases h : (a : Int) + d < 0
  · simp only [h, if_true]; constructor
    · intro e; cases e
    · intro ⟨h1, _⟩; omega
  · simp only [h, if_false, Option.some.injEq]; omega

theorem addSigned_nonneg (a : Nat) (d : Int) (h : 0 ≤ (a : Int) + d) :
    addSigned a d = some ((a : Int) + d).toNat := by
  rw [addSigned_eq_some]; omega

theorem addSigned_eq_none (a : Nat) (d : Int) : addSigned a d = none ↔ (a : Int) + d < 0 := by
  unfold addSigned
  by_cases h : (a : Int) + d < 0 <;> simp [h]

theorem matPosMap_retain (m : MatPos) (ks : List (Int × Int)) :
    matPosMap.retain m ks = retainDefault MatPos.getP MatPos.bind m ks .unbound := rfl

/-- "Inside the bounding box". -/
def InBox (minr minc maxr maxc : Int) (k : Int × Int) : Prop :=
  minr ≤ k.1 ∧ k.1 ≤ maxr ∧ minc ≤ k.2 ∧ k.2 ≤ maxc

theorem mat_getP_out (sr sc : Nat) (minr minc maxr maxc : Int) (k : Int × Int)
    (h : ¬ InBox minr minc maxr maxc k) :
    MatPos.getP (.bound sr sc minr minc maxr maxc) k = some none := by
  obtain ⟨kr, kc⟩ := k
  have : ¬ (kr ≥ minr ∧ kr ≤ maxr ∧ kc ≥ minc ∧ kc ≤ maxc) := fun ⟨a, b, c, d⟩ => h ⟨a, b, c, d⟩
  simp only [MatPos.getP, this, if_false]

theorem mat_getP_in_some (sr sc : Nat) (minr minc maxr maxc : Int) (k : Int × Int) (r c : Nat)
    (h : InBox minr minc maxr maxc k) (hr : addSigned sr k.1 = some r)
    (hc : addSigned sc k.2 = some c) :
    MatPos.getP (.bound sr sc minr minc maxr maxc) k = some (some (r, c)) := by
  obtain ⟨kr, kc⟩ := k
  have : kr ≥ minr ∧ kr ≤ maxr ∧ kc ≥ minc ∧ kc ≤ maxc := ⟨h.1, h.2.1, h.2.2.1, h.2.2.2⟩
  simp only at hr hc
  simp only [MatPos.getP, this, and_self, if_true, hr, hc]

theorem mat_getP_in_none (sr sc : Nat) (minr minc maxr maxc : Int) (k : Int × Int)
    (h : InBox minr minc maxr maxc k) (hn : addSigned sr k.1 = none ∨ addSigned sc k.2 = none) :
    MatPos.getP (.bound sr sc minr minc maxr maxc) k = none := by
  obtain ⟨kr, kc⟩ := k
  have : kr ≥ minr ∧ kr ≤ maxr ∧ kc ≥ minc ∧ kc ≤ maxc := ⟨h.1, h.2.1, h.2.2.1, h.2.2.2⟩
  simp only at hn
  simp only [MatPos.getP, this, and_self, if_true]
  split
  · rename_i r c h1 h2
    rcases hn with hn | hn
    · rw [hn] at h1; cases h1
    · rw [hn] at h2; cases h2
  · rfl

theorem mat_getP_in_nonneg (sr sc : Nat) (minr minc maxr maxc : Int) (k : Int × Int)
    (h : InBox minr minc maxr maxc k) (hr : 0 ≤ (sr : Int) + k.1) (hc : 0 ≤ (sc : Int) + k.2) :
    MatPos.getP (.bound sr sc minr minc maxr maxc) k =
      some (some (((sr : Int) + k.1).toNat, ((sc : Int) + k.2).toNat)) :=
  mat_getP_in_some _ _ _ _ _ _ _ _ _ h (addSigned_nonneg _ _ hr) (addSigned_nonneg _ _ hc)

theorem mat_getP_eq_some (m : MatPos) (k : Int × Int) (v : Nat × Nat) :
    m.getP k = some (some v) ↔
      ∃ sr sc minr minc maxr maxc, m = .bound sr sc minr minc maxr maxc ∧
        InBox minr minc maxr maxc k ∧ 0 ≤ (sr : Int) + k.1 ∧ 0 ≤ (sc : Int) + k.2 ∧
        (v.1 : Int) = (sr : Int) + k.1 ∧ (v.2 : Int) = (sc : Int) + k.2 := by
  cases m with
  | unbound => simp [MatPos.getP]
  | bound sr sc minr minc maxr maxc =>
    constructor
    · intro h
      by_cases hb : InBox minr minc maxr maxc k
      · cases hr : addSigned sr k.1 with
        | none => rw [mat_getP_in_none _ _ _ _ _ _ _ hb (.inl hr)] at h; cases h
        | some r =>
          cases hc : addSigned sc k.2 with
          | none => rw [mat_getP_in_none _ _ _ _ _ _ _ hb (.inr hc)] at h; cases h
          | some c =>
            rw [mat_getP_in_some _ _ _ _ _ _ _ _ _ hb hr hc] at h
            simp only [Option.some.injEq] at h
            subst h
            obtain ⟨a1, a2⟩ := (addSigned_eq_some _ _ _).1 hr
            obtain ⟨b1, b2⟩ := (addSigned_eq_some _ _ _).1 hc
            exact ⟨sr, sc, minr, minc, maxr, maxc, rfl, hb, a1, b1, a2, b2⟩
      · rw [mat_getP_out _ _ _ _ _ _ _ hb] at h; simp at h
    · rintro ⟨sr', sc', minr', minc', maxr', maxc', e, hb, hr, hc, e1, e2⟩
      cases e
      rw [mat_getP_in_nonneg _ _ _ _ _ _ _ hb hr hc]
      obtain ⟨v1, v2⟩ := v
      simp only [Option.some.injEq, Prod.mk.injEq]
      simp only at e1 e2
      omega

theorem mat_get_eq_some (m : MatPos) (k : Int × Int) (v : Nat × Nat) :
    MatPos.get m k = some v ↔ m.getP k = some (some v) := by
  unfold MatPos.get
  cases h : m.getP k with
  | none => simp
  | some r => simp

theorem mat_bind_unbound_ok (k : Int × Int) (v : Nat × Nat) (m' : MatPos)
    (h : MatPos.bind .unbound k v = .ok m') : k = (0, 0) ∧ m' = .bound v.1 v.2 0 0 0 0 := by
  obtain ⟨kr, kc⟩ := k
  obtain ⟨vr, vc⟩ := v
  by_cases hk : kr = 0 ∧ kc = 0
  · simp only [MatPos.bind, hk, and_self, if_true, Except.ok.injEq] at h
    exact ⟨by rw [hk.1, hk.2], h.symm⟩
  · simp [MatPos.bind, hk] at h

theorem mat_bind_bound_of_ne (sr sc : Nat) (a b c d : Int) (k : Int × Int) (v : Nat × Nat)
    (hk : k ≠ (0, 0)) :
    MatPos.bind (.bound sr sc a b c d) k v
      = .ok (.bound sr sc (min a k.1) (min b k.2) (max c k.1) (max d k.2)) := by
  obtain ⟨kr, kc⟩ := k
  have : ¬ (kr = 0 ∧ kc = 0) := fun ⟨e1, e2⟩ => hk (by rw [e1, e2])
  simp only [MatPos.bind, this, if_false]

theorem mat_bind_bound_ok (sr sc : Nat) (a b c d : Int) (k : Int × Int) (v : Nat × Nat)
    (m' : MatPos) (h : MatPos.bind (.bound sr sc a b c d) k v = .ok m') :
    k ≠ (0, 0) ∧ m' = .bound sr sc (min a k.1) (min b k.2) (max c k.1) (max d k.2) := by
  by_cases hk : k = (0, 0)
  · subst hk; simp [MatPos.bind] at h
  · rw [mat_bind_bound_of_ne _ _ _ _ _ _ _ _ hk] at h
    exact ⟨hk, (Except.ok.inj h).symm⟩

theorem mat_bind_start_bound (sr sc : Nat) (a b c d : Int) (v : Nat × Nat) :
    MatPos.bind (.bound sr sc a b c d) (0, 0) v = .error .variableExists := by
  simp [MatPos.bind]

theorem mat_bind_keepsP (m m' : MatPos) (k k' : Int × Int) (v v' : Nat × Nat)
    (hb : MatPos.bind m k v = .ok m') (hg : m.getP k' = some (some v')) :
    m'.getP k' = some (some v') := by
  obtain ⟨sr, sc, a, b, c, d, rfl, hbox, hr, hc, e1, e2⟩ := (mat_getP_eq_some m k' v').1 hg
  obtain ⟨_, rfl⟩ := mat_bind_bound_ok sr sc a b c d k v m' hb
  refine (mat_getP_eq_some _ k' v').2 ⟨sr, sc, _, _, _, _, rfl, ?_, hr, hc, e1, e2⟩
  obtain ⟨h1, h2, h3, h4⟩ := hbox
  refine ⟨?_, ?_, ?_, ?_⟩ <;> omega

/-- The accumulator of a rebuild of `m` is unbound or shares `m`'s start cell. -/
def MatAcc (m acc : MatPos) : Prop :=
  acc = .unbound ∨ ∃ sr sc a b c d a' b' c' d',
    m = .bound sr sc a b c d ∧ acc = .bound sr sc a' b' c' d'

theorem mat_retain_step (m acc acc' : MatPos) (k : Int × Int) (v : Nat × Nat) (hP : MatAcc m acc)
    (hg : m.getP k = some (some v)) (hb : MatPos.bind acc k v = .ok acc') :
    MatAcc m acc' ∧ MatPos.get acc' k = some v ∧
      ∀ k' v', MatPos.get acc k' = some v' → MatPos.get acc' k' = some v' := by
  refine ⟨?_, ?_, ?_⟩
  · obtain ⟨sr, sc, a, b, c, d, rfl, hbox, hr, hc, e1, e2⟩ := (mat_getP_eq_some m k v).1 hg
    rcases hP with rfl | ⟨sr', sc', a0, b0, c0, d0, a', b', c', d', hm, rfl⟩
    · obtain ⟨rfl, rfl⟩ := mat_bind_unbound_ok k v acc' hb
      simp only [Int.add_zero] at e1 e2
      have e1' : v.1 = sr := by omega
      have e2' : v.2 = sc := by omega
      rw [e1', e2']
      exact .inr ⟨sr, sc, a, b, c, d, 0, 0, 0, 0, rfl, rfl⟩
    · cases hm
      obtain ⟨_, rfl⟩ := mat_bind_bound_ok sr sc a' b' c' d' k v acc' hb
      exact .inr ⟨sr, sc, a, b, c, d, _, _, _, _, rfl, rfl⟩
  · rw [mat_get_eq_some]
    obtain ⟨sr, sc, a, b, c, d, rfl, hbox, hr, hc, e1, e2⟩ := (mat_getP_eq_some m k v).1 hg
    rcases hP with rfl | ⟨sr', sc', a0, b0, c0, d0, a', b', c', d', hm, rfl⟩
    · obtain ⟨rfl, rfl⟩ := mat_bind_unbound_ok k v acc' hb
      refine (mat_getP_eq_some _ _ v).2 ⟨v.1, v.2, 0, 0, 0, 0, rfl, ?_, ?_, ?_, ?_, ?_⟩
      · exact ⟨Int.le_refl _, Int.le_refl _, Int.le_refl _, Int.le_refl _⟩
      all_goals simp
    · cases hm
      obtain ⟨_, rfl⟩ := mat_bind_bound_ok sr sc a' b' c' d' k v acc' hb
      refine (mat_getP_eq_some _ _ v).2 ⟨sr, sc, _, _, _, _, rfl, ?_, hr, hc, e1, e2⟩
      refine ⟨?_, ?_, ?_, ?_⟩ <;> omega
  · intro k' v' h
    rw [mat_get_eq_some] at h ⊢
    exact mat_bind_keepsP acc acc' k k' v v' hb h

/-- A rebuild that does not panic preserves `get` on the listed keys — for every map and every
order. -/
theorem mat_retain_preserves (m m' : MatPos) (order : List (Int × Int))
    (h : matPosMap.retain m order = some m') :
    ∀ k ∈ order, ∀ v, MatPos.get m k = some v → MatPos.get m' k = some v := by
  rw [matPosMap_retain] at h
  obtain ⟨_, h2, _⟩ := retainDefault_preserves MatPos.getP MatPos.bind MatPos.get m
    (MatAcc m) (fun acc k v acc' => mat_retain_step m acc acc' k v) order .unbound m' (.inl rfl) h
  exact fun k hk v hv => h2 k hk v ((mat_get_eq_some m k v).1 hv)

theorem mat_getP_isSome (m : MatPos) (hi : MatInv m) (k : Int × Int) : (m.getP k).isSome := by
  cases m with
  | unbound => rfl
  | bound sr sc minr minc maxr maxc =>
    obtain ⟨h1, h2, h3, h4, h5, h6⟩ := hi
    by_cases hb : InBox minr minc maxr maxc k
    · obtain ⟨b1, b2, b3, b4⟩ := hb
      rw [mat_getP_in_nonneg _ _ _ _ _ _ _ ⟨b1, b2, b3, b4⟩ (by omega) (by omega)]; rfl
    · rw [mat_getP_out _ _ _ _ _ _ _ hb]; rfl

/-- The rebuild loop once the start key has been re-bound, when it is not listed again: the
accumulator's box grows inside `m`'s box and takes in every listed key of `m`'s box. -/
theorem mat_loop_some (sr sc : Nat) (minr minc maxr maxc : Int)
    (hsr : 0 ≤ (sr : Int) + minr) (hsc : 0 ≤ (sc : Int) + minc) :
    ∀ (ks : List (Int × Int)) (a b c d : Int), (0, 0) ∉ ks →
      minr ≤ a → minc ≤ b → c ≤ maxr → d ≤ maxc →
      ∃ a' b' c' d', retainDefault MatPos.getP MatPos.bind (.bound sr sc minr minc maxr maxc) ks
          (.bound sr sc a b c d) = some (.bound sr sc a' b' c' d') ∧
        a' ≤ a ∧ b' ≤ b ∧ c ≤ c' ∧ d ≤ d' ∧ minr ≤ a' ∧ minc ≤ b' ∧ c' ≤ maxr ∧ d' ≤ maxc ∧
        ∀ k ∈ ks, InBox minr minc maxr maxc k → InBox a' b' c' d' k := by
  intro ks
  induction ks with
  | nil =>
    intro a b c d _ h1 h2 h3 h4
    exact ⟨a, b, c, d, rfl, Int.le_refl _, Int.le_refl _, Int.le_refl _, Int.le_refl _,
      h1, h2, h3, h4, by simp⟩
  | cons k ks ih =>
    intro a b c d h0 h1 h2 h3 h4
    have hk0 : k ≠ (0, 0) := fun e => h0 (e ▸ List.mem_cons_self ..)
    have h0' : (0, 0) ∉ ks := fun e => h0 (List.mem_cons_of_mem _ e)
    by_cases hb : InBox minr minc maxr maxc k
    · obtain ⟨b1, b2, b3, b4⟩ := hb
      have hg := mat_getP_in_nonneg sr sc minr minc maxr maxc k ⟨b1, b2, b3, b4⟩
        (by omega) (by omega)
      rw [retainDefault_cons_bind MatPos.getP MatPos.bind _ _ _ k _ ks hg
        (mat_bind_bound_of_ne sr sc a b c d k _ hk0)]
      obtain ⟨a', b', c', d', e, q1, q2, q3, q4, q5, q6, q7, q8, q9⟩ :=
        ih (min a k.1) (min b k.2) (max c k.1) (max d k.2) h0'
          (by omega) (by omega) (by omega) (by omega)
      refine ⟨a', b', c', d', e, by omega, by omega, by omega, by omega, q5, q6, q7, q8, ?_⟩
      intro k' hk' hb'
      rcases List.mem_cons.1 hk' with rfl | hk'
      · refine ⟨?_, ?_, ?_, ?_⟩ <;> omega
      · exact q9 k' hk' hb'
    · rw [retainDefault_cons_skip MatPos.getP MatPos.bind _ _ k ks (mat_getP_out _ _ _ _ _ _ _ hb)]
      obtain ⟨a', b', c', d', e, q1, q2, q3, q4, q5, q6, q7, q8, q9⟩ := ih a b c d h0' h1 h2 h3 h4
      refine ⟨a', b', c', d', e, q1, q2, q3, q4, q5, q6, q7, q8, ?_⟩
      intro k' hk' hb'
      rcases List.mem_cons.1 hk' with rfl | hk'
      · exact absurd hb' hb
      · exact q9 k' hk' hb'

theorem mat_retain_all_none (m : MatPos) (order : List (Int × Int))
    (h : ∀ k ∈ order, m.getP k = some none) : matPosMap.retain m order = some .unbound := by
  rw [matPosMap_retain]
  exact retainDefault_skip_all MatPos.getP MatPos.bind m .unbound order h

/-- Under `MatInv`, `get = none` means "not bound" (not "panicked"). -/
theorem mat_get_none_inv (m : MatPos) (hi : MatInv m) (k : Int × Int)
    (h : MatPos.get m k = none) : m.getP k = some none := by
  have := mat_getP_isSome m hi k
  unfold MatPos.get at h
  cases hg : m.getP k with
  | none => rw [hg] at this; cases this
  | some r => rw [hg] at h; simp only at h; rw [h]

/-- The rebuild from an order starting with the start key, listed once. -/
theorem mat_retain_start_first (m : MatPos) (hi : MatInv m) (rest : List (Int × Int))
    (h0 : (0, 0) ∉ rest) :
    ∃ m', matPosMap.retain m ((0, 0) :: rest) = some m' ∧ MatInv m' ∧
      ∀ k ∈ (0, 0) :: rest, m'.getP k = m.getP k := by
  cases m with
  | unbound =>
    exact ⟨.unbound, mat_retain_all_none _ _ (fun _ _ => rfl), trivial, fun _ _ => rfl⟩
  | bound sr sc minr minc maxr maxc =>
    obtain ⟨i1, i2, i3, i4, i5, i6⟩ := hi
    have hg : MatPos.getP (.bound sr sc minr minc maxr maxc) (0, 0) = some (some (sr, sc)) := by
      rw [mat_getP_in_nonneg _ _ _ _ _ _ _ ⟨i1, i3, i2, i4⟩ (by simp) (by simp)]
      simp
    obtain ⟨a', b', c', d', e, q1, q2, q3, q4, q5, q6, q7, q8, q9⟩ :=
      mat_loop_some sr sc minr minc maxr maxc i5 i6 rest 0 0 0 0 h0 i1 i2 i3 i4
    refine ⟨.bound sr sc a' b' c' d', ?_, ⟨q1, q2, q3, q4, by omega, by omega⟩, ?_⟩
    · rw [matPosMap_retain,
        retainDefault_cons_bind MatPos.getP MatPos.bind _ _ (.bound sr sc 0 0 0 0) (0, 0) _ rest hg
          (by simp [MatPos.bind]), e]
    · intro k hk
      by_cases hb : InBox minr minc maxr maxc k
      · have hb' : InBox a' b' c' d' k := by
          rcases List.mem_cons.1 hk with rfl | hk
          · exact ⟨q1, q3, q2, q4⟩
          · exact q9 k hk hb
        obtain ⟨b1, b2, b3, b4⟩ := hb
        rw [mat_getP_in_nonneg _ _ _ _ _ _ _ hb' (by omega) (by omega),
          mat_getP_in_nonneg _ _ _ _ _ _ _ ⟨b1, b2, b3, b4⟩ (by omega) (by omega)]
      · have hb' : ¬ InBox a' b' c' d' k := by
          intro ⟨b1, b2, b3, b4⟩
          exact hb ⟨by omega, by omega, by omega, by omega⟩
        rw [mat_getP_out _ _ _ _ _ _ _ hb, mat_getP_out _ _ _ _ _ _ _ hb']

theorem mat_get_of_getP_eq (m m' : MatPos) (k : Int × Int) (h : m'.getP k = m.getP k) :
    MatPos.get m' k = MatPos.get m k := by
  unfold MatPos.get; rw [h]

/-- `retain_keys` does not panic and preserves `get` on the listed keys (and the invariant) when
the start key comes first and is listed once. -/
theorem mat_retain_ok (m : MatPos) (order : List (Int × Int)) (hi : MatInv m)
    (hdup : ∀ rest, order = (0, 0) :: rest → (0, 0) ∉ rest)
    (hfirst : order = [] ∨ order.head? = some (0, 0) ∨ ∀ k ∈ order, MatPos.get m k = none) :
    ∃ m', matPosMap.retain m order = some m' ∧ MatInv m' ∧
      ∀ k ∈ order, m'.getP k = m.getP k := by
  rcases hfirst with rfl | h | h
  · exact ⟨.unbound, rfl, trivial, by simp⟩
  · cases order with
    | nil => simp at h
    | cons k rest =>
      simp only [List.head?_cons, Option.some.injEq] at h
      subst h
      exact mat_retain_start_first m hi rest (hdup rest rfl)
  · have h' : ∀ k ∈ order, m.getP k = some none := fun k hk => mat_get_none_inv m hi k (h k hk)
    exact ⟨.unbound, mat_retain_all_none m order h', trivial, fun k hk => (h' k hk).symm ▸ rfl⟩

/-- What an offer for a non-start key on a bound map looks like. -/
theorem mat_opts_bound (h : MatHost) (k : MKey) (v : MVal) (sr sc : Nat) (a b c d : Int)
    (hv : v ∈ matOpts h k (.bound sr sc a b c d)) :
    k ≠ (0, 0) ∧ addSigned sr k.1 = some v.1 ∧ addSigned sc k.2 = some v.2 := by
  unfold matOpts matOptsP at hv
  by_cases hk : k = (0, 0)
  · simp [hk] at hv
  · refine ⟨hk, ?_⟩
    simp only [hk, if_false] at hv
    split at hv
    · rename_i r c' h1 h2
      split at hv
      · simp only [Option.getD_some, List.mem_singleton] at hv
        subst hv
        exact ⟨h1, h2⟩
      · simp at hv
    · simp at hv

theorem mat_opts_unbound (h : MatHost) (k : MKey) (v : MVal) (hv : v ∈ matOpts h k .unbound) :
    k = (0, 0) := by
  unfold matOpts matOptsP at hv
  by_cases hk : k = (0, 0)
  · exact hk
  · simp [hk] at hv

theorem count_start_le_one {α : Type} [BEq α] [LawfulBEq α] (a : α) (order : List α)
    (h : order.count a ≤ 1) : ∀ rest, order = a :: rest → a ∉ rest := by
  intro rest e hm
  subst e
  have : 0 < rest.count a := List.count_pos_iff.2 hm
  rw [List.count_cons_self] at h
  omega

end Pm
