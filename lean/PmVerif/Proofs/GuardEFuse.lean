/-
Proofs/GuardEFuse.lean — `make_constraints_unique(s)` keeps the invariant inside the iteration
(`GE.JInv`), for every event log (namespace `Pm.GE`).

This is the step in which the transitions of a zombie child of `s` are copied into a fresh state:
the fused child `N` receives the transitions of ALL old children of the group, whether their ids
have been emitted or not.  The clauses of `s` speak about all its children, so the children of `N`
have no fallback transition and its grandchildren are chains, whatever the id of `N`.
Acyclicity (`C08A.Mono`) excludes the degenerate configurations (`s` below one of its children).
-/
import PmVerif.Proofs.GuardEInv
import PmVerif.Proofs.C08AcycFuse
namespace Pm
namespace GE
open Automaton TBL C08A
variable {K P : Type}

section Fuse
variable {a a' : Automaton K P} {s N tN : Nat} {ts : List Nat} {c0 : Option (Constraint K P)}

/-- Triple form of `FuseEdges.all`. -/
theorem fuse_sound
    (hg : ∀ t ∈ ts, ∃ e, a.g.edge? t = some e ∧ e.src = s ∧ e.w = c0)
    (fe : C08.FuseEdges a a' s ts N tN c0) {x d : Nat} {c : Option (Constraint K P)}
    (h : HasEdge a' x d c) :
    (x = s ∧ d = N ∧ c = c0) ∨ (∃ t, t ∉ ts ∧ a.g.edge? t = some ⟨x, d, c⟩) ∨
    (x = N ∧ ∃ old, HasEdge a s old c0 ∧ HasEdge a old d c) := by
  obtain ⟨t, ht⟩ := h
  rcases fe.all t _ ht with ⟨_, he⟩ | ⟨_, hn, he⟩ | ⟨_, hsrc, old, ⟨t1, ht1, e1, he1, hd1⟩, t0, ht0⟩
  · cases he; exact .inl ⟨rfl, rfl, rfl⟩
  · exact .inr (.inl ⟨t, hn, he⟩)
  · refine .inr (.inr ⟨hsrc, old, ?_, ⟨t0, ht0⟩⟩)
    obtain ⟨e', he', hs', hw'⟩ := hg t1 ht1
    rw [he1] at he'; cases he'
    refine ⟨t1, ?_⟩
    rw [he1]
    cases e1
    simp only at hs' hw' hd1
    subst hs' hw' hd1
    rfl

theorem group_edge (hg : ∀ t ∈ ts, ∃ e, a.g.edge? t = some e ∧ e.src = s ∧ e.w = c0)
    (fe : C08.FuseEdges a a' s ts N tN c0) : ∃ d1, HasEdge a s d1 c0 := by
  obtain ⟨t, ht⟩ := List.exists_mem_of_ne_nil ts fe.ne
  obtain ⟨e, he, hs, hw⟩ := hg t ht
  refine ⟨e.dst, t, ?_⟩
  rw [he]; cases e; simp only at hs hw; subst hs hw; rfl

theorem not_N_of_dst (inv : Inv a) (fe : C08.FuseEdges a a' s ts N tN c0) {x d : Nat}
    {c : Option (Constraint K P)} (h : HasEdge a x d c) : d ≠ N := by
  obtain ⟨t, ht⟩ := h
  exact fun hd => fe.deadN (hd ▸ inv.ok.dst_live ht)

theorem not_N_of_src (inv : Inv a) (fe : C08.FuseEdges a a' s ts N tN c0) {x d : Nat}
    {c : Option (Constraint K P)} (h : HasEdge a x d c) : x ≠ N := by
  obtain ⟨t, ht⟩ := h
  exact fun hd => fe.deadN (hd ▸ inv.ok.src_live ht)

/-- A state without fallback transition keeps that property (the fused transition of `s` carries
the constraint of the group, which `s` had before). -/
theorem fuse_eft (_inv : Inv a)
    (hg : ∀ t ∈ ts, ∃ e, a.g.edge? t = some e ∧ e.src = s ∧ e.w = c0)
    (fe : C08.FuseEdges a a' s ts N tN c0) {c : Nat} (h : EFt a c) (hc : c ≠ N) : EFt a' c := by
  intro d hd
  rcases fuse_sound hg fe hd with ⟨rfl, _, h0⟩ | ⟨t, _, ht⟩ | ⟨hx, _⟩
  · obtain ⟨d1, h1⟩ := group_edge hg fe
    rw [← h0] at h1
    exact h d1 h1
  · exact h d ⟨t, ht⟩
  · exact hc hx

/-- Chains survive the fuse; if `s` itself lies on the chain it has a single transition, the fused
child is a copy of its only child and the chain goes on through it. -/
theorem fuse_chain (inv : Inv a)
    (hg : ∀ t ∈ ts, ∃ e, a.g.edge? t = some e ∧ e.src = s ∧ e.w = c0)
    (hcomp : ∀ t e, a.g.edge? t = some e → e.src = s → e.w = c0 → t ∈ ts)
    (fe : C08.FuseEdges a a' s ts N tN c0) {g : Nat} (h : Chain a g) (hgN : g ≠ N) :
    Chain a' g := by
  have reach_ne_N' : ∀ x y, Reach a x y → x ≠ N → y ≠ N := by
    intro x y hy
    induction hy with
    | refl x => exact id
    | @head x m z c h1 _ ih => exact fun _ => ih (not_N_of_dst inv fe h1)
  have reach_ne_N : ∀ y, Reach a g y → y ≠ N := fun y hy => reach_ne_N' g y hy hgN
  refine chain_transfer (fun y => (y = s ∨ y = N) ∧ Reach a g s) h ?_ ?_
  · intro y hy hM d c hd
    rcases fuse_sound hg fe hd with ⟨rfl, _, _⟩ | ⟨t, _, ht⟩ | ⟨hx, _⟩
    · exact absurd ⟨.inl rfl, hy⟩ hM
    · exact ⟨t, ht⟩
    · exact absurd hx (reach_ne_N y hy)
  · rintro y ⟨hy, hrs⟩
    have hps : Poor a s := h s hrs
    obtain ⟨d1, h1⟩ := group_edge hg fe
    rcases hy with rfl | rfl
    · -- the state `s` itself: its only transition afterwards is the fused one
      have only : ∀ d c, HasEdge a' y d c → d = N ∧ c = c0 := by
        intro d c hd
        rcases fuse_sound hg fe hd with ⟨_, h2, h3⟩ | ⟨t, hn, ht⟩ | ⟨hx, _⟩
        · exact ⟨h2, h3⟩
        · exfalso
          obtain ⟨_, hcc⟩ := hps.2 d c d1 c0 ⟨t, ht⟩ h1
          exact hn (hcomp t _ ht rfl hcc)
        · exact absurd hx.symm fe.nes
      refine ⟨⟨fun d hd => ?_, fun d c d' c' h2 h3 => ?_⟩, fun d c hd => ?_⟩
      · have := (only d none hd).2
        rw [← this] at h1
        exact hps.1 d1 h1
      · obtain ⟨e1, e2⟩ := only d c h2
        obtain ⟨e3, e4⟩ := only d' c' h3
        exact ⟨e1.trans e3.symm, e2.trans e4.symm⟩
      · exact .inl ⟨.inr (only d c hd).1, hrs⟩
    · -- the fused child: a copy of the only child `d1` of `s`
      have hd1 : Reach a g d1 := hrs.tail h1
      have hpd : Poor a d1 := h d1 hd1
      have src : ∀ d c, HasEdge a' y d c → HasEdge a d1 d c := by
        intro d c hd
        rcases fuse_sound hg fe hd with ⟨hx, _, _⟩ | ⟨t, _, ht⟩ | ⟨_, old, ho, h2⟩
        · exact absurd hx fe.nes
        · exact absurd rfl (not_N_of_src inv fe ⟨t, ht⟩)
        · obtain ⟨hdd, _⟩ := hps.2 old c0 d1 c0 ho h1
          exact hdd ▸ h2
      refine ⟨⟨fun d hd => hpd.1 d (src d none hd), fun d c d' c' h2 h3 =>
        hpd.2 d c d' c' (src d c h2) (src d' c' h3)⟩, fun d c hd => .inr (hd1.tail (src d c hd))⟩

/-- **One fused group keeps the invariant inside the iteration.** -/
theorem fuse_keepsJ {rank : Nat → Nat} {E : List Nat} (inv : Inv a) (m : Mono rank a)
    (hg : ∀ t ∈ ts, ∃ e, a.g.edge? t = some e ∧ e.src = s ∧ e.w = c0)
    (hcomp : ∀ t e, a.g.edge? t = some e → e.src = s → e.w = c0 → t ∈ ts)
    (fe : C08.FuseEdges a a' s ts N tN c0) (J : JInv a E s) : JInv a' E s := by
  have rk : ∀ {x d c}, HasEdge a x d c → rank x < rank d := by
    rintro x d c ⟨t, ht⟩; exact m t _ ht
  have eft := @fuse_eft K P a a' s N tN ts c0 inv hg fe
  have chn := @fuse_chain K P a a' s N tN ts c0 inv hg hcomp fe
  have ndst := @not_N_of_dst K P a a' s N tN ts c0 inv fe
  have nsrc := @not_N_of_src K P a a' s N tN ts c0 inv fe
  -- below an old child of the group
  have below : ∀ old, HasEdge a s old c0 → ∀ c k, HasEdge a old c k →
      EFt a c ∧ ∀ g k', HasEdge a c g k' → Chain a g := by
    intro old ho c k hc
    cases hc0 : c0 with
    | none => rw [hc0] at ho; exact J.loc.grandE old ho c k hc
    | some k0 =>
      rw [hc0] at ho
      have hch := J.loc.grand old k0 ho c k hc
      exact ⟨hch.poor.1, fun g k' hgk => hch.child hgk⟩
  -- the fused child has no fallback transition
  have efN : EFt a' N := by
    intro d hd
    rcases fuse_sound hg fe hd with ⟨hx, _, _⟩ | ⟨t, _, ht⟩ | ⟨_, old, ho, h2⟩
    · exact fe.nes hx
    · exact nsrc ⟨t, ht⟩ rfl
    · exact J.loc.child old c0 ho d h2
  -- transitions of a state other than `s` and `N` are old
  have oldOf : ∀ {x d c}, x ≠ s → x ≠ N → HasEdge a' x d c → HasEdge a x d c := by
    intro x d c hxs hxN hd
    rcases fuse_sound hg fe hd with ⟨hx, _, _⟩ | ⟨t, _, ht⟩ | ⟨hx, _⟩
    · exact absurd hx hxs
    · exact ⟨t, ht⟩
    · exact absurd hx hxN
  -- the children of a child of `N`
  have belowN : ∀ c k, HasEdge a' N c k → EFt a' c ∧ ∀ g k', HasEdge a' c g k' → Chain a' g := by
    intro c k hc
    rcases fuse_sound hg fe hc with ⟨hx, _, _⟩ | ⟨t, _, ht⟩ | ⟨_, old, ho, h2⟩
    · exact absurd hx fe.nes
    · exact absurd rfl (nsrc ⟨t, ht⟩)
    · obtain ⟨h3, h4⟩ := below old ho c k h2
      have hcN : c ≠ N := ndst h2
      have hcs : c ≠ s := fun e => by
        have r1 := rk ho
        have r2 := rk h2
        rw [e] at r2
        exact absurd (Nat.lt_trans r1 r2) (Nat.lt_irrefl _)
      refine ⟨eft h3 hcN, fun g k' hgk => ?_⟩
      have h5 := oldOf hcs hcN hgk
      exact chn (h4 g k' h5) (ndst h5)
  refine ⟨fun p hp hps => ?_, ⟨fun c k hc => ?_, fun c k hc g k' hgk => ?_,
    fun f hf c k hc => ?_⟩, fun p k hp => ?_⟩
  · -- the other pending states
    by_cases hpN : p = N
    · subst hpN
      exact ⟨efN, fun c k hc => (belowN c k hc).1, fun c k hc => (belowN c k hc).2⟩
    · have ok := J.others p hp hps
      refine ⟨fun d hd => ok.self d (oldOf hps hpN hd), fun c k hc => ?_,
        fun c k hc g k' hgk => ?_⟩
      · have h0 := oldOf hps hpN hc
        exact eft (ok.child c k h0) (ndst h0)
      · have h0 := oldOf hps hpN hc
        have hcs : c ≠ s := fun e => hp (J.preds p k (e ▸ h0))
        have h1 := oldOf hcs (ndst h0) hgk
        exact chn (ok.grand c k h0 g k' h1) (ndst h1)
  · -- children of `s`
    rcases fuse_sound hg fe hc with ⟨_, rfl, _⟩ | ⟨t, _, ht⟩ | ⟨hx, _⟩
    · exact efN
    · exact eft (J.loc.child c k ⟨t, ht⟩) (ndst ⟨t, ht⟩)
    · exact absurd hx.symm fe.nes
  · -- below the constraint children of `s`
    rcases fuse_sound hg fe hc with ⟨_, rfl, h0⟩ | ⟨t, _, ht⟩ | ⟨hx, _⟩
    · rcases fuse_sound hg fe hgk with ⟨hx, _, _⟩ | ⟨t, _, ht⟩ | ⟨_, old, ho, h2⟩
      · exact absurd hx fe.nes
      · exact absurd rfl (nsrc ⟨t, ht⟩)
      · rw [← h0] at ho
        exact chn (J.loc.grand old k ho g k' h2) (ndst h2)
    · have h0 : HasEdge a s c (some k) := ⟨t, ht⟩
      have hcs : c ≠ s := fun e => inv.noloop t _ ht e.symm
      have h1 := oldOf hcs (ndst h0) hgk
      exact chn (J.loc.grand c k h0 g k' h1) (ndst h1)
    · exact absurd hx.symm fe.nes
  · -- below the fallback children of `s`
    rcases fuse_sound hg fe hf with ⟨_, rfl, _⟩ | ⟨t, _, ht⟩ | ⟨hx, _⟩
    · exact belowN c k hc
    · have h0 : HasEdge a s f none := ⟨t, ht⟩
      have hfs : f ≠ s := fun e => inv.noloop t _ ht e.symm
      have h1 := oldOf hfs (ndst h0) hc
      obtain ⟨h3, h4⟩ := J.loc.grandE f h0 c k h1
      have hcs : c ≠ s := fun e => by
        have r1 := rk h0
        have r2 := rk h1
        rw [e] at r2
        exact absurd (Nat.lt_trans r1 r2) (Nat.lt_irrefl _)
      refine ⟨eft h3 (ndst h1), fun g k' hgk => ?_⟩
      have h5 := oldOf hcs (ndst h1) hgk
      exact chn (h4 g k' h5) (ndst h5)
    · exact absurd hx.symm fe.nes
  · -- the parents of `s`
    rcases fuse_sound hg fe hp with ⟨_, h2, _⟩ | ⟨t, _, ht⟩ | ⟨_, old, ho, h2⟩
    · exact absurd h2 fe.nes.symm
    · exact J.preds p k ⟨t, ht⟩
    · exfalso
      have r1 := rk ho
      have r2 := rk h2
      exact absurd (Nat.lt_trans r1 r2) (Nat.lt_irrefl _)

end Fuse

section Pass
variable [DecidableEq K] [DecidableEq P]
set_option linter.unusedSectionVars false

/-- **`make_constraints_unique(s)` keeps the invariant inside the iteration** (and acyclicity),
for every event log. -/
theorem makeConstraintsUnique_keepsJ {a a' : Automaton K P} {s : Nat} {evs evs' : List Ev}
    {E : List Nat} (inv : Inv a) (hs : a.Live s) (H : Acyclic a) (J : JInv a E s)
    (h : a.makeConstraintsUnique s evs = .ok (a', evs')) :
    Acyclic a' ∧ JInv a' E s ∧ Inv a' ∧ a'.Live s := by
  have := C07.makeConstraintsUnique_induct2 (fun b => Acyclic b ∧ JInv b E s) (s := s)
    (fun {a a' ts c0} inv hs hg hcomp hf hΦ => by
      obtain ⟨N, tN, fe⟩ := C08.fuseGroup_edges inv hs hg hf
      obtain ⟨rank, m⟩ := hΦ.1
      exact ⟨acyclic_fuseGroup inv hs hg hΦ.1 hf, fuse_keepsJ inv m hg hcomp fe hΦ.2⟩)
    inv hs ⟨H, J⟩ h
  exact ⟨this.1.1, this.1.2, this.2.2.1, this.2.2.2⟩

/-- The state `s` still has no fallback transition after the first pass. -/
theorem makeConstraintsUnique_eft {a a' : Automaton K P} {s : Nat} {evs evs' : List Ev}
    (inv : Inv a) (hs : a.Live s) (he : EFt a s)
    (h : a.makeConstraintsUnique s evs = .ok (a', evs')) : EFt a' s := by
  have := C07.makeConstraintsUnique_induct2 (fun b => EFt b s) (s := s)
    (fun {a a' ts c0} inv hs hg _ hf hΦ => by
      obtain ⟨N, tN, fe⟩ := C08.fuseGroup_edges inv hs hg hf
      exact fuse_eft inv hg fe hΦ fe.nes.symm) inv hs he h
  exact this.1

end Pass

end GE
end Pm
