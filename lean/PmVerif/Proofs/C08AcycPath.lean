/-
Proofs/C08AcycPath.lean — the rank form of acyclicity (`C08A.Acyclic`) and the path form
(`C08A.NoCycle`: no live transition `u → v` with a path `v →* u`, i.e. no non-empty path from a
state to itself) coincide on a structurally well-formed (finite) graph. The rank of a state in
the direction path ⇒ rank is the number of live states that reach it.
Everything lives in `namespace Pm.C08A`.
-/
import PmVerif.Proofs.C08AcycMerge
namespace Pm
namespace C08A
open Automaton
variable {K P : Type}

/-- Path form of acyclicity: no transition can be closed to a cycle. -/
def NoCycle (a : Automaton K P) : Prop :=
  ∀ t e, a.g.edge? t = some e → ¬ Reach a e.dst e.src

theorem noCycle_of_acyclic {a : Automaton K P} (H : Acyclic a) : NoCycle a := by
  obtain ⟨r, m⟩ := H
  intro t e he hr
  have h1 := m t e he
  have h2 := hr.rank_le m
  omega

theorem filter_length_le {α : Type} (p q : α → Bool) :
    ∀ (l : List α), (∀ x ∈ l, p x = true → q x = true) →
      (l.filter p).length ≤ (l.filter q).length
  | [], _ => Nat.le_refl _
  | a :: l, h => by
    have ih := filter_length_le p q l fun x hx => h x (List.mem_cons_of_mem _ hx)
    have ha := h a List.mem_cons_self
    rw [List.filter_cons, List.filter_cons]
    cases hp : p a <;> cases hq : q a
    · simpa using ih
    · simp only [Bool.false_eq_true, if_false, if_true, List.length_cons]; omega
    · rw [hp, hq] at ha; exact absurd (ha rfl) (by simp)
    · simp only [if_true, List.length_cons]; omega

theorem filter_length_lt {α : Type} (p q : α → Bool) :
    ∀ (l : List α), (∀ x ∈ l, p x = true → q x = true) →
      (∃ x ∈ l, p x = false ∧ q x = true) → (l.filter p).length < (l.filter q).length
  | [], _, ⟨_, hx, _⟩ => by cases hx
  | a :: l, h, ⟨x, hx, hpx, hqx⟩ => by
    have hsub : ∀ y ∈ l, p y = true → q y = true := fun y hy => h y (List.mem_cons_of_mem _ hy)
    have ile := filter_length_le p q l hsub
    have ha := h a List.mem_cons_self
    rw [List.filter_cons, List.filter_cons]
    rcases List.mem_cons.1 hx with rfl | hx
    · rw [hpx, hqx]
      simp only [Bool.false_eq_true, if_false, if_true, List.length_cons]
      omega
    · have ilt := filter_length_lt p q l hsub ⟨x, hx, hpx, hqx⟩
      cases hp : p a <;> cases hq : q a
      · simpa using ilt
      · simp only [Bool.false_eq_true, if_false, if_true, List.length_cons]; omega
      · rw [hp, hq] at ha; exact absurd (ha rfl) (by simp)
      · simp only [if_true, List.length_cons]; omega

/-- On a well-formed graph the path form implies the rank form. -/
theorem acyclic_of_noCycle {a : Automaton K P} (hg : a.g.WF) (H : NoCycle a) : Acyclic a := by
  classical
  refine ⟨fun x => (a.g.nodeIndices.filter fun y => decide (Reach a y x)).length, ?_⟩
  intro t e he
  apply filter_length_lt
  · intro y _ hy
    simp only [decide_eq_true_eq] at hy ⊢
    exact .step hy he rfl rfl
  · refine ⟨e.dst, ?_, ?_, ?_⟩
    · obtain ⟨nd, hnd, _⟩ := hg.edge_dst t e he
      exact SGraph.mem_nodeIndices.2 (SGraph.containsNode_iff.2 ⟨nd, hnd⟩)
    · simp only [decide_eq_false_iff_not]
      exact H t e he
    · simp only [decide_eq_true_eq]
      exact .refl _

theorem acyclic_iff_noCycle {a : Automaton K P} (hg : a.g.WF) : Acyclic a ↔ NoCycle a :=
  ⟨noCycle_of_acyclic, acyclic_of_noCycle hg⟩

/-- No non-empty path from a state to itself. -/
theorem noCycle_iff {a : Automaton K P} :
    NoCycle a ↔ ∀ x t e, a.g.edge? t = some e → e.src = x → ¬ Reach a e.dst x :=
  ⟨fun h _ t e he hs => hs ▸ h t e he, fun h t e he => h e.src t e he rfl⟩

end C08A
end Pm
