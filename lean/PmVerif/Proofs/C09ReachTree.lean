/-
Proofs/C09ReachTree.lean — `insert_constraint_tree` preserves `HasIn` (Proofs/C09ReachCore.lean):
the drained children are re-attached below a tree state (`TreeBuilt.root_labels` / `.inner`) or
below the fail state (`FailBuilt.cover`); every state created on the way (tree states, the fail
state) is created by `add_transition`, hence has an incoming transition (`GrowIn`). No hypothesis
on the tree decomposition is needed.
-/
import PmVerif.Proofs.C09ReachCore
namespace Pm
namespace C09R
open Automaton
variable {K P : Type}

/-- `b` extends `a1` by grow-only edits: the states of `a1` are still there and every other
state of `b` is the target of a transition. -/
structure GrowIn (a1 b : Automaton K P) : Prop where
  inv : Inv b
  live : ∀ x, a1.Live x → b.Live x
  fresh : ∀ x, b.Live x → ¬ a1.Live x → ∃ t e, b.g.edge? t = some e ∧ e.dst = x

theorem GrowIn.refl {a : Automaton K P} (inv : Inv a) : GrowIn a a :=
  ⟨inv, fun _ h => h, fun _ h h' => absurd h h'⟩

theorem GrowIn.grows {a1 b b' : Automaton K P} {dst : Nat}
    {New : Option (Constraint K P) → Nat → Prop} (gi : GrowIn a1 b) (g : Grows b b' dst New) :
    GrowIn a1 b' :=
  ⟨g.inv, fun x hx => (g.live_iff x).2 (gi.live x hx), fun x hx hn => by
    obtain ⟨t, e, he, hd⟩ := gi.fresh x ((g.live_iff x).1 hx) hn
    exact ⟨t, e, g.old t e he, hd⟩⟩

theorem GrowIn.addTransition {a1 b b' : Automaton K P} {p ch e : Nat}
    {c : Option (Constraint K P)} (gi : GrowIn a1 b) (sp : AddTransitionSpec b b' p ch c e) :
    GrowIn a1 b' :=
  ⟨sp.inv, fun x hx => sp.live_of_live (gi.live x hx), fun x hx hn => by
    rcases addTransitionSpec_live sp hx with h | h
    · exact ⟨e, _, addTransitionSpec_edge_child sp, h.symm⟩
    · obtain ⟨t, ed, he, hd⟩ := gi.fresh x h hn
      exact ⟨t, ed, sp.old_edge he, hd⟩⟩

section Loops
variable [DecidableEq K] [DecidableEq P]
set_option linter.unusedSectionVars false

theorem growIn_treeChildren {a1 : Automaton K P} {tree : CTree (Cons K P)}
    {children : List Nat} {m : Nat} :
    ∀ (cs : List (Cons K P × Nat)) {b b' : Automaton K P} {stack stack' : List (Nat × Nat)}
      {added added' : List Nat},
    GrowIn a1 b → b.Live m → (∀ p ∈ stack, b.Live p.2) →
    treeChildren tree children m b cs stack added = .ok (b', stack', added') →
    GrowIn a1 b' ∧ ∀ p ∈ stack', b'.Live p.2
  | [], b, b', stack, stack', added, added', gi, _, hst, h => by
    unfold treeChildren at h; cases h
    exact ⟨gi, hst⟩
  | (c, z) :: rest, b, b', stack, stack', added, added', gi, hm, hst, h => by
    obtain ⟨b1, b2, stack1, hcase, happ, hrest⟩ := treeChildren_cons_inv h
    have h1 : GrowIn a1 b1 ∧ b1.Live m ∧ ∀ p ∈ stack1, b1.Live p.2 := by
      rcases hcase with ⟨_, cm, hadd, rfl⟩ | ⟨_, rfl, rfl⟩
      · obtain ⟨e, sp⟩ := addTransition_spec gi.inv hm hadd
        refine ⟨gi.addTransition sp, sp.live_of_live hm, fun p hp => ?_⟩
        rcases List.mem_append.1 hp with hp | hp
        · exact sp.live_of_live (hst p hp)
        · simp only [List.mem_singleton] at hp
          subst hp
          exact sp.live_child
      · exact ⟨gi, hm, hst⟩
    obtain ⟨gi1, hm1, hst1⟩ := h1
    obtain ⟨g, _⟩ := appendEdges_grows _ gi1.inv happ
    exact growIn_treeChildren rest (gi1.grows g) ((g.live_iff m).2 hm1)
      (fun p hp => (g.live_iff _).2 (hst1 p hp)) hrest

theorem growIn_treeLoop {a1 : Automaton K P} {tree : CTree (Cons K P)} {children : List Nat} :
    ∀ (fuel : Nat) {b b' : Automaton K P} {stack : List (Nat × Nat)} {added added' : List Nat},
    GrowIn a1 b → (∀ p ∈ stack, b.Live p.2) →
    treeLoop tree children fuel b stack added = .ok (b', added') → GrowIn a1 b'
  | fuel, b, b', stack, added, added', gi, hst, h => by
    rcases treeLoop_inv h with ⟨_, heq⟩ | ⟨fuel', n, m, init, b1, stack1, added1, rfl, rfl, htc, hl⟩
    · cases heq; exact gi
    · obtain ⟨gi1, hst1⟩ := growIn_treeChildren _ gi
        (hst (n, m) (List.mem_append_right _ List.mem_cons_self))
        (fun p hp => hst p (List.mem_append_left _ hp)) htc
      exact growIn_treeLoop fuel' gi1 hst1 hl

theorem growIn_addConstraintTree {a1 a2 : Automaton K P} {tree : CTree (Cons K P)} {s : Nat}
    {children : List Nat} {fuel : Nat} {added : List Nat} (inv : Inv a1) (hs : a1.Live s)
    (h : a1.addConstraintTree tree s children fuel = .ok (a2, added)) : GrowIn a1 a2 := by
  unfold addConstraintTree at h
  simp only at h
  cases happ : a1.appendEdges s children none (tree.labelsAt 0) with
  | error e => rw [happ] at h; cases h
  | ok b =>
    rw [happ] at h
    simp only at h
    obtain ⟨g, _⟩ := appendEdges_grows _ inv happ
    refine growIn_treeLoop fuel ((GrowIn.refl inv).grows g) (fun p hp => ?_) h
    simp only [List.mem_singleton] at hp
    subst hp
    exact (g.live_iff s).2 hs

/-- The re-attachment argument: `a1` is `a` without the constraint transitions of `s`
(`w.corder`), `a2` is `a1` plus the image of the tree, `a'` is `a2` plus the fail state. -/
theorem hasIn_of_ctx {a a1 a2 a' : Automaton K P} {s : Nat} {w : AState K}
    {cs : List (Constraint K P)} {ch : List Nat} {tree : CTree (Constraint K P)} {fuel : Nat}
    {added : List Nat} {Rep : Nat → Nat → Prop} {F : Nat → Prop}
    (inv : Inv a) (sh : Shrinks a a1 w.corder)
    (edge_idx : ∀ t, t ∈ w.corder → ∃ (i : Nat) (c : Constraint K P) (d : Nat),
      cs[i]? = some c ∧ ch[i]? = some d ∧ a.g.edge? t = some ⟨s, d, some c⟩)
    (tb : TreeBuilt a1 a2 tree s ch fuel added Rep)
    (fb : FailBuilt a2 a' s cs ch added F) (gi : GrowIn a1 a') (H : HasIn a) :
    Inv a' ∧ (∀ x, a.Live x → a'.Live x) ∧ HasIn a' := by
  refine ⟨fb.inv, fun x hx => gi.live x ((sh.live_iff x).2 hx), ?_⟩
  have hroot : a'.root = a.root := fb.root.trans (tb.root.trans sh.root)
  intro x hx hxr
  by_cases hx1 : a1.Live x
  · have hxa : a.Live x := (sh.live_iff x).1 hx1
    obtain ⟨t, e, he, hd⟩ := H x hxa (fun hr => hxr (hr.trans hroot.symm))
    by_cases ht : t ∈ w.corder
    · obtain ⟨i, c, d, hc, hdch, hed⟩ := edge_idx t ht
      rw [he] at hed
      cases hed
      simp only at hd
      subst hd
      have hds : d ≠ s := Ne.symm (inv.noloop t _ he)
      have hdrep : ∀ n m, Rep n m → d ≠ m := by
        intro n m hr hdm
        rcases tb.rep_fresh n m hr with ⟨_, hms⟩ | hdead
        · exact hds (hdm.trans hms)
        · exact hdead (hdm ▸ hx1)
      by_cases hi : i ∈ added
      · rcases (tb.added_iff i).1 hi with hl | ⟨n, m, c', n', hr, hcn, hl⟩
        · obtain ⟨d', hd', hed'⟩ := tb.root_labels i hl
          rw [hdch] at hd'
          cases hd'
          obtain ⟨t', ht'⟩ := hed' hds
          exact ⟨t', _, fb.old t' _ ht', rfl⟩
        · obtain ⟨d', hd', hed'⟩ := (tb.inner n m c' n' hr hcn).2 i hl
          rw [hdch] at hd'
          cases hd'
          obtain ⟨t', ht'⟩ := hed' (hdrep n m hr)
          exact ⟨t', _, fb.old t' _ ht', rfl⟩
      · obtain ⟨f, _, t2, _, ht2⟩ := fb.cover i c d hi hc hdch
        exact ⟨t2, _, ht2, rfl⟩
    · refine ⟨t, e, fb.old t e (tb.old t e ?_), hd⟩
      rw [sh.edge, if_neg ht]; exact he
  · exact gi.fresh x hx hx1

/-- Everything the structural arguments need about the non-trivial branch of
`insert_constraint_tree(s)`: `a1` is `a` without the constraint transitions of `s`, `a2` is `a1`
plus the image of the tree, `a'` is `a2` plus the fail state. -/
def TreePieces (a a' : Automaton K P) (s : Nat) : Prop :=
  ∃ (w : AState K) (a1 a2 : Automaton K P) (cs : List (Constraint K P)) (ch : List Nat)
    (tree : CTree (Constraint K P)) (fuel : Nat) (added : List Nat) (Rep : Nat → Nat → Prop)
    (F : Nat → Prop),
    Inv a ∧ a.g.weight? s = some w ∧ Shrinks a a1 w.corder ∧
    (∀ t, t ∈ w.corder → ∃ (i : Nat) (c : Constraint K P) (d : Nat),
      cs[i]? = some c ∧ ch[i]? = some d ∧ a.g.edge? t = some ⟨s, d, some c⟩) ∧
    TreeBuilt a1 a2 tree s ch fuel added Rep ∧ FailBuilt a2 a' s cs ch added F ∧ GrowIn a1 a'

/-- Assembling the pieces from the run of `insert_constraint_tree` up to the fail state (the
analogue of `subStep_of_run`). -/
theorem pieces_of_run {a a1 a2 a' : Automaton K P} {s fuel : Nat} {w : AState K} (inv : Inv a)
    (hw : a.g.weight? s = some w)
    {drained : List (Option (Constraint K P) × Nat)}
    (hdr : a.drainConstraints s = .ok (a1, drained))
    (g : Option (Constraint K P) × Nat → Option (Constraint K P × Nat))
    {tree : CTree (Constraint K P)} {added : List Nat}
    (hadd : a1.addConstraintTree tree s ((drained.filterMap g).map (·.2)) fuel = .ok (a2, added))
    (hg : ∀ c d, g (c, d) = c.map fun c => (c, d))
    (hfb : Inv a2 → a2.Live s →
      (∀ (i : Nat) d, ((drained.filterMap g).map (·.2))[i]? = some d → a2.Live d) →
      GrowIn a1 a2 →
      (∃ F, FailBuilt a2 a' s ((drained.filterMap g).map (·.1))
        ((drained.filterMap g).map (·.2)) added F) ∧ GrowIn a1 a') :
    TreePieces a a' s := by
  obtain ⟨w', hw', sh, hmap⟩ := drainConstraints_shrinks inv hdr
  rw [hw] at hw'; cases hw'
  obtain ⟨hie, hei⟩ := drain_ctx inv.ok hw g hg drained hmap
  have hs1 : a1.Live s := (sh.live_iff s).2 (live_of_weight hw)
  obtain ⟨Rep, tb⟩ := addConstraintTree_built a1 a2 tree s _ fuel added sh.inv hs1 hadd
  have gi2 := growIn_addConstraintTree sh.inv hs1 hadd
  have hlen : ((drained.filterMap g).map (·.2)).length =
      ((drained.filterMap g).map (·.1)).length := by simp
  have hchl : ∀ (i : Nat) d, ((drained.filterMap g).map (·.2))[i]? = some d → a2.Live d := by
    intro i d hd
    have hi : i < ((drained.filterMap g).map (·.1)).length := by
      rw [← hlen]; exact (List.getElem?_eq_some_iff.1 hd).1
    obtain ⟨t, _, he⟩ := hie i _ d (List.getElem?_eq_getElem hi) hd
    exact live2_of sh tb (inv.ok.dst_live he)
  obtain ⟨⟨F, fb⟩, gi⟩ := hfb tb.inv (live2_of sh tb (live_of_weight hw)) hchl gi2
  exact ⟨w, a1, a2, _, _, tree, fuel, added, Rep, F, inv, hw, sh, hei, tb, fb, gi⟩

/-- `insert_constraint_tree(s)` either does nothing or runs through the three phases. -/
theorem insertConstraintTree_pieces
    {toTree : List (Constraint K P) → Option (CTree (Constraint K P))}
    {a a' : Automaton K P} {s fuel : Nat} {det : Bool} (inv : Inv a)
    (h : insertConstraintTree toTree a s fuel = .ok (a', det)) : a' = a ∨ TreePieces a a' s := by
  unfold insertConstraintTree at h
  split at h
  · cases h
  · rename_i w hw
    rw [state_ok_iff] at hw
    split at h
    · cases h; exact .inl rfl
    · split at h
      · cases h; exact .inl rfl
      · right
        split at h
        · cases h
        · rename_i a1 drained hdr
          extract_lets pairs cs ch at h
          split at h
          · cases h
          · rename_i tree htree
            split at h
            · cases h
            · rename_i a2 added hadd
              extract_lets notAdded at h
              have hmem : ∀ i, i ∈ notAdded ↔ i < cs.length ∧ i ∉ added := by
                intro i
                simp [notAdded, List.mem_filter, and_comm]
              split at h
              · rename_i hemp
                cases h
                refine pieces_of_run inv hw hdr _ hadd (by intro _ _; rfl) ?_
                intro inv2 _ _ gi2
                refine ⟨⟨_, failBuilt_nil inv2 s ch ?_⟩, gi2⟩
                intro i hi
                refine Classical.byContradiction fun hn => ?_
                have := (hmem i).2 ⟨hi, hn⟩
                rw [List.isEmpty_iff.1 hemp] at this
                cases this
              · split at h
                · cases h
                · rename_i a3 f h1
                  cases hrest : insertConstraintTree.addRest cs ch f a3 notAdded with
                  | error e => rw [hrest] at h; cases h
                  | ok a4 =>
                    rw [hrest] at h
                    cases h
                    refine pieces_of_run inv hw hdr _ hadd (by intro _ _; rfl) ?_
                    intro inv2 hs2 hchl gi2
                    refine ⟨⟨_, failBuilt_cons inv2 hs2 hchl (fun i h1 h2 => (hmem i).2 ⟨h1, h2⟩)
                      (fun i hi => ((hmem i).1 hi).2) h1 hrest⟩, ?_⟩
                    obtain ⟨e0, sp⟩ := addTransition_spec inv2 hs2 h1
                    obtain ⟨g, _⟩ := addRest_grows notAdded sp.inv hrest
                    exact (gi2.addTransition sp).grows g

theorem hasIn_insertConstraintTree
    {toTree : List (Constraint K P) → Option (CTree (Constraint K P))}
    {a a' : Automaton K P} {s fuel : Nat} {det : Bool} (inv : Inv a) (hs : a.Live s)
    (H : HasIn a) (h : insertConstraintTree toTree a s fuel = .ok (a', det)) :
    Inv a' ∧ a'.Live s ∧ HasIn a' := by
  rcases insertConstraintTree_pieces inv h with rfl | hp
  · exact ⟨inv, hs, H⟩
  · obtain ⟨w, a1, a2, cs, ch, tree, fuel', added, Rep, F, _, _, sh, hei, tb, fb, gi⟩ := hp
    obtain ⟨inv', hl, H'⟩ := hasIn_of_ctx inv sh hei tb fb gi H
    exact ⟨inv', hl s hs, H'⟩

end Loops

end C09R
end Pm
