/-
Proofs/PGProgIso.lean — when `constraint_vec` returns the isolated-root vector
`[isNotEqual 0 [root 0]]` (the one output that is not covered by `stateOK_build`): exactly when the
graph has links but the root has none (`pgConstraints_isolated_iff`). If the root has a link,
`line_partition` returns at least one (non-empty) line and every link of a line contributes an
`isConnected` constraint, so the vector of the lines is non-empty.
Everything lives in `namespace Pm.PGProg`.
-/
import PmVerif.Proofs.PGProgCor
import PmVerif.Proofs.PGDomLines
namespace Pm
namespace PGProg
open PGDom

/-- `line_partition`'s loop only appends lines. -/
theorem linePartitionLoop_prefix (g : PortGraph) (fuel : Nat) (queue visL : List PLink)
    (visN : List Nat) (lines : List (List PLink)) :
    ∃ more, linePartitionLoop g fuel queue visL visN lines = lines ++ more := by
  obtain ⟨_, _, _, h⟩ := linePartitionLoop_ind g (fun _ _ _ L => ∃ more, L = lines ++ more)
    (fun _ _ _ _ _ _ h => h)
    (fun _ _ _ _ L _ h => by
      obtain ⟨more, rfl⟩ := h
      exact ⟨more ++ [_], by rw [List.append_assoc]⟩)
    fuel queue visL visN lines ⟨[], by simp⟩
  exact h

/-- If the root has a link, `line_partition` returns at least one line. -/
theorem linePartition_ne_nil {g : PortGraph} {root : Nat} (h : g.allLinks root ≠ []) :
    linePartition g root ≠ [] := by
  unfold linePartition
  cases hq : g.allLinks root with
  | nil => exact absurd hq h
  | cons start queue =>
    have hf : 4 * g.links.length + 4 + 2 * (start :: queue).length =
        (4 * g.links.length + 3 + 2 * (start :: queue).length) + 1 := by omega
    rw [hf, linePartitionLoop_succ]
    have hv : linkVisited [] start = false := rfl
    simp only [hv, Bool.false_eq_true, ↓reduceIte]
    obtain ⟨more, hm⟩ := linePartitionLoop_prefix g
      (4 * g.links.length + 3 + 2 * (start :: queue).length)
      (extendLine g (g.links.length + 1) [start] queue ([] ++ [start]) [root]).2.1
      (extendLine g (g.links.length + 1) [start] queue ([] ++ [start]) [root]).2.2.1
      (extendLine g (g.links.length + 1) [start] queue ([] ++ [start]) [root]).2.2.2
      ([] ++ [(extendLine g (g.links.length + 1) [start] queue ([] ++ [start]) [root]).1])
    rw [hm]
    simp

/-- `consLine` only appends constraints, at least one per link. -/
theorem consLine_length (ri : Nat) (off : POff) :
    ∀ (line : List PLink) (i : Nat) (n2k : List (Nat × PGKey)) (cs : List PGCons)
      (r : List (Nat × PGKey) × List PGCons),
      consLine ri off line i n2k cs = some r → cs.length + line.length ≤ r.2.length
  | [], i, n2k, cs, r, h => by
    rw [consLine_nil] at h
    cases h
    simp
  | l :: rest, i, n2k, cs, r, h => by
    rw [consLine_cons] at h
    split at h
    · cases h
    · split at h
      · have := consLine_length ri off rest _ _ _ r h
        simp only [List.length_append, List.length_cons, List.length_nil] at this ⊢
        omega
      · have := consLine_length ri off rest _ _ _ r h
        simp only [List.length_append, List.length_cons, List.length_nil] at this ⊢
        omega

/-- `consLines` only appends constraints, at least one per link. -/
theorem consLines_length :
    ∀ (lines : List (List PLink)) (n2k : List (Nat × PGKey)) (n2r : List (Nat × Nat))
      (cs cs' : List PGCons),
      consLines lines n2k n2r cs = some cs' → cs.length + lines.flatten.length ≤ cs'.length
  | [], n2k, n2r, cs, cs', h => by
    rw [consLines_nil] at h
    cases h
    simp
  | line :: lines, n2k, n2r, cs, cs', h => by
    rw [consLines_cons] at h
    split at h
    · cases h
    · split at h
      · cases h
      · next r hr =>
        have h1 := consLine_length _ _ _ _ _ _ _ hr
        have h2 := consLines_length lines _ _ _ _ h
        simp only [List.flatten_cons, List.length_append] at h2 ⊢
        omega

/-- **`constraint_vec` returns the isolated-root vector exactly when the graph has links but the
root has none.** -/
theorem pgConstraints_isolated_iff (g : PortGraph) (root : Nat) :
    pgConstraints g root = some pgIsolatedVec ↔ g.edgeCount ≠ 0 ∧ g.allLinks root = [] := by
  constructor
  · intro h
    have hec : g.edgeCount ≠ 0 := by
      intro he
      unfold pgConstraints at h
      rw [if_pos he] at h
      revert h
      decide
    refine ⟨hec, ?_⟩
    refine Classical.byContradiction fun hne => ?_
    obtain ⟨cs0, h0, hcase⟩ := pgConstraints_cases h
    -- the lines contribute at least one constraint
    have hlp := linePartition_ne_nil hne
    have hlen := consLines_length _ _ _ _ _ h0
    have hpos : 0 < (linePartition g root).flatten.length := by
      cases hl : linePartition g root with
      | nil => exact absurd hl hlp
      | cons line rest =>
        have hline := (linePartition_isLine g root line (hl ▸ List.mem_cons_self)).ne
        cases line with
        | nil => exact absurd rfl hline
        | cons _ _ => simp
    have hcs0 : cs0 ≠ [] := by
      intro e
      rw [e] at hlen
      simp only [List.length_nil] at hlen
      omega
    rcases hcase with rfl | ⟨e, _⟩
    · -- the vector of the lines contains no one-key `isNotEqual`
      have hnu := consLines_noUnary _ _ _ _ _ h0 (by simp) (by intro c hc; cases hc)
      have := hnu ⟨.isNotEqual 0, [.root 0]⟩ (by simp [pgIsolatedVec])
      cases this
    · exact hcs0 e
  · rintro ⟨hec, hl⟩
    unfold pgConstraints
    rw [if_neg hec]
    have : linePartition g root = [] := by
      unfold linePartition
      rw [hl, linePartitionLoop_nil]
    rw [this]
    rfl

end PGProg
end Pm
