/-
Proofs/MatProgScopes.lean — `populate_scopes` on a STAR indexing scheme
(`Baseline.starReq s0 k = if k = s0 then [] else [s0]`; the matrix scheme `matReq` is the star
scheme with start key `(0,0)`): every scope it computes has the shape `ShP s0 Pk`: it is empty, or
it is the start key `s0` followed by keys different from `s0`; and all its keys satisfy `Pk`,
for any key predicate `Pk` that holds of the start key and of every argument of every constraint
carried by an edge (for matrices: non-negativity). Generic version of Proofs/StrProgScopes.lean.

* `shP_append_allMissing` — appending the missing bindings of a `Pk` key list to a known list of
  shape `ShP` keeps the shape.
* `shP_filter` / `shP_reduce` — the order-preserving intersections of `forward_scopes` keep it.
* `forwardScopes_shP` — every forward scope satisfies `ShP`.
* `backwardScopes_start` — every non-empty backward scope contains `s0`, provided every non-empty
  recorded key list does.
* `setScopes_shP`, `populateScopes_shP` — the final scopes satisfy `ShP`;
  `populateScopes_mat` — the instance for `matReq`.
Everything lives in `namespace Pm.MatProg`.
-/
import PmVerif.Proofs.StrProgScopes
import PmVerif.Proofs.AnchMKeys
import PmVerif.Proofs.AutomatonLoops
namespace Pm
namespace MatProg
open Automaton Baseline

variable {K : Type} [DecidableEq K] {s0 : K} {Pk : K → Prop}

/-! ### The shape `ShP` -/

/-- Shape of scopes and key lists of a star scheme: empty, or the start key followed by keys
different from it. -/
def Sh (s0 : K) (ks : List K) : Prop := ks = [] ∨ ∃ rest, ks = s0 :: rest ∧ s0 ∉ rest

/-- `Sh`, and every key satisfies `Pk`. -/
def ShP (s0 : K) (Pk : K → Prop) (ks : List K) : Prop := Sh s0 ks ∧ ∀ k ∈ ks, Pk k

omit [DecidableEq K] in
theorem shP_nil : ShP s0 Pk [] := ⟨.inl rfl, fun _ h => by cases h⟩

omit [DecidableEq K] in
theorem sh_mem_start {ks : List K} (h : Sh s0 ks) (hne : ks ≠ []) : s0 ∈ ks := by
  rcases h with h | ⟨rest, h, _⟩
  · exact absurd h hne
  · rw [h]; exact List.mem_cons_self

/-- A star scheme is rank-acyclic. -/
theorem starReq_acyclic (s0 : K) : RankAcyclic (starReq s0) :=
  ⟨fun k => if k = s0 then 0 else 1, fun k p hp => by
    unfold starReq at hp
    split at hp
    · cases hp
    · rename_i hk
      rw [List.mem_singleton.1 hp]
      show (if s0 = s0 then 0 else 1) < (if k = s0 then 0 else 1)
      rw [if_pos rfl, if_neg hk]
      exact Nat.zero_lt_one⟩

theorem starReq_ne {x : K} (hx : x ≠ s0) : starReq s0 x = [s0] := by
  unfold starReq
  rw [if_neg hx]

/-- On a star scheme a needed key is requested or the start key. -/
theorem needed_star {known keys : List K} {x : K} (h : Needed (starReq s0) known keys x) :
    x ∈ keys ∨ x = s0 := by
  induction h with
  | root hk _ => exact .inl hk
  | @step x p _ hp _ _ =>
    right
    unfold starReq at hp
    split at hp
    · cases hp
    · exact List.mem_singleton.1 hp

theorem sh_append_missing {known keys more : List K} (hk : Sh s0 known)
    (hm : MissingSpec (starReq s0) known keys more) : Sh s0 (known ++ more) := by
  rcases hk with rfl | ⟨rest, rfl, hr⟩
  · rw [List.nil_append]
    cases more with
    | nil => exact .inl rfl
    | cons x tl =>
      have hx0 : x = s0 := by
        by_cases hx : x = s0
        · exact hx
        · exfalso
          have h2 := (hm.order x List.mem_cons_self s0
            (by rw [starReq_ne hx]; exact List.mem_singleton.2 rfl)
            (fun h => by cases h)).2
          rw [List.idxOf_cons_self] at h2
          exact Nat.not_lt_zero _ h2
      subst hx0
      exact .inr ⟨tl, rfl, (List.nodup_cons.1 hm.nodup).1⟩
  · refine .inr ⟨rest ++ more, rfl, ?_⟩
    intro h
    rcases List.mem_append.1 h with h | h
    · exact hr h
    · have hn := (hm.exact s0).1 h
      cases hn with
      | root _ hnk => exact hnk List.mem_cons_self
      | step _ _ hnk => exact hnk List.mem_cons_self

theorem shP_append_allMissing {known keys more : List K} {fuel : Nat} (hs : Pk s0)
    (hk : ShP s0 Pk known) (hkeys : ∀ k ∈ keys, Pk k)
    (h : allMissingBindings (starReq s0) keys known fuel = some more) :
    ShP s0 Pk (known ++ more) := by
  have spec := c12_all_any_fuel (starReq s0) (starReq_acyclic s0) keys known fuel more h
  refine ⟨sh_append_missing hk.1 spec, ?_⟩
  intro k hkm
  rcases List.mem_append.1 hkm with hkm | hkm
  · exact hk.2 k hkm
  · rcases needed_star ((spec.exact k).1 hkm) with h1 | h1
    · exact hkeys k h1
    · exact h1 ▸ hs

/-- The order-preserving intersection with a list that is empty or contains the start key. -/
theorem shP_filter {x y : List K} (hx : ShP s0 Pk x) (hy : y ≠ [] → s0 ∈ y) :
    ShP s0 Pk (x.filter fun k => y.contains k) := by
  refine ⟨?_, fun k hk => hx.2 k (List.mem_filter.1 hk).1⟩
  rcases hx.1 with rfl | ⟨rest, rfl, hr⟩
  · exact .inl rfl
  · by_cases hy0 : y = []
    · subst hy0
      refine .inl ?_
      rw [List.filter_eq_nil_iff]
      intro a _
      simp
    · have h0 := hy hy0
      refine .inr ⟨rest.filter fun k => y.contains k, ?_, ?_⟩
      · rw [List.filter_cons_of_pos]
        exact List.contains_iff_mem.2 h0
      · intro h
        exact hr (List.mem_filter.1 h).1

theorem shP_foldl_filter :
    ∀ (xs : List (List K)) (x : List K), ShP s0 Pk x → (∀ y ∈ xs, ShP s0 Pk y) →
      ShP s0 Pk (xs.foldl (fun x y => x.filter fun k => y.contains k) x)
  | [], _, hx, _ => hx
  | y :: xs, x, hx, hxs => by
    rw [List.foldl_cons]
    exact shP_foldl_filter xs _
      (shP_filter hx (sh_mem_start (hxs y List.mem_cons_self).1))
      (fun z hz => hxs z (List.mem_cons_of_mem _ hz))

/-- The `reduce` of `forward_scopes` keeps the shape. -/
theorem shP_reduce {scopes : List (List K)} (h : ∀ y ∈ scopes, ShP s0 Pk y) :
    ShP s0 Pk ((reduceOpt (fun x y => x.filter fun k => y.contains k) scopes).getD []) := by
  cases scopes with
  | nil => exact shP_nil
  | cons x xs =>
    show ShP s0 Pk (xs.foldl _ x)
    exact shP_foldl_filter xs x (h x List.mem_cons_self)
      (fun z hz => h z (List.mem_cons_of_mem _ hz))

omit [DecidableEq K] in
/-- `(alGet acc n).getD []` inherits every property of the values of `acc` that `[]` has. -/
theorem alGet_getD_prop {Q : List K → Prop} (hnil : Q []) {acc : List (Nat × List K)}
    (h : ∀ p ∈ acc, Q p.2) (n : Nat) : Q ((alGet acc n).getD []) := by
  cases hg : alGet acc n with
  | none => exact hnil
  | some v =>
    obtain ⟨p, hp, hv⟩ := StrProg.alGet_some_mem hg
    exact hv ▸ h p hp

/-! ### Forward scopes -/

variable {P : Type}

/-- Every argument of every constraint carried by a live edge satisfies `Pk`. -/
def EdgeKeys (Pk : K → Prop) (a : Automaton K P) : Prop :=
  ∀ t e c, a.g.edge? t = some e → e.w = some c → ∀ k ∈ c.args, Pk k

theorem forwardScopes_shP (hs : Pk s0) (fuel : Nat) (a : Automaton K P) (hQ : EdgeKeys Pk a) :
    ∀ (ns : List Nat) (acc fwd : List (Nat × List K)),
      forwardScopes (starReq s0) fuel a ns acc = .ok fwd → (∀ p ∈ acc, ShP s0 Pk p.2) →
      ∀ p ∈ fwd, ShP s0 Pk p.2
  | [], acc, fwd, h, hacc => by
    rw [forwardScopes] at h
    cases h
    exact hacc
  | n :: ns, acc, fwd, h, hacc => by
    rw [forwardScopes] at h
    split at h
    · cases h
    · rename_i scopes hscopes
      refine forwardScopes_shP hs fuel a hQ ns _ fwd h ?_
      intro p hp
      rcases List.mem_append.1 hp with hp | hp
      · exact hacc p hp
      · rw [List.mem_singleton.1 hp]
        refine shP_reduce ?_
        intro y hy
        obtain ⟨es, _, hf⟩ := StrProg.mapR_out hscopes y hy
        simp only at hf
        split at hf
        · cases hf
        · rename_i c hc
          split at hf
          · cases hf
          · rename_i more hmore
            cases hf
            refine shP_append_allMissing hs (alGet_getD_prop shP_nil hacc es.2) ?_ hmore
            obtain ⟨e, he, hw⟩ := constraintOf_ok_iff.1 hc
            cases c with
            | none => intro k hk; cases hk
            | some c => exact hQ es.1 e c he hw

theorem forwardScopes_get_shP (hs : Pk s0) {fuel : Nat} {a : Automaton K P} (hQ : EdgeKeys Pk a)
    {ns : List Nat} {fwd : List (Nat × List K)}
    (h : forwardScopes (starReq s0) fuel a ns [] = .ok fwd)
    {n : Nat} {f : List K} (hf : alGet fwd n = some f) : ShP s0 Pk f := by
  obtain ⟨p, hp, hv⟩ := StrProg.alGet_some_mem hf
  exact hv ▸ forwardScopes_shP hs fuel a hQ ns [] fwd h (fun p hp => by cases hp) p hp

/-! ### Backward scopes -/

/-- "Empty or contains the start key". -/
def Z (s0 : K) (ks : List K) : Prop := ks ≠ [] → s0 ∈ ks

omit [DecidableEq K] in
theorem z_nil : Z s0 [] := fun h => absurd rfl h

omit [DecidableEq K] in
theorem z_append {x y : List K} (hx : Z s0 x) (hy : Z s0 y) : Z s0 (x ++ y) := by
  intro hne
  by_cases hx0 : x = []
  · subst hx0
    rw [List.nil_append] at hne ⊢
    exact hy hne
  · exact List.mem_append_left _ (hx hx0)

omit [DecidableEq K] in
theorem z_flatten {ls : List (List K)} (h : ∀ l ∈ ls, Z s0 l) : Z s0 ls.flatten := by
  intro hne
  obtain ⟨x, hx⟩ := List.exists_mem_of_ne_nil _ hne
  obtain ⟨l, hl, hxl⟩ := List.mem_flatten.1 hx
  exact List.mem_flatten.2 ⟨l, hl, h l hl (fun h0 => by rw [h0] at hxl; cases hxl)⟩

omit [DecidableEq K] in
theorem z_flatMap {α} {ms : List α} {g : α → List K} (h : ∀ m ∈ ms, Z s0 (g m)) :
    Z s0 (ms.flatMap g) := by
  rw [List.flatMap_def]
  refine z_flatten ?_
  intro l hl
  obtain ⟨m, hm, rfl⟩ := List.mem_map.1 hl
  exact h m hm

omit [DecidableEq K] in
theorem backwardScopes_start (a : Automaton K P)
    (hk : ∀ s w, a.g.weight? s = some w → ∀ m ∈ w.matches_, m.2 ≠ [] → s0 ∈ m.2) :
    ∀ (ns : List Nat) (acc bwd : List (Nat × List K)),
      backwardScopes a ns acc = .ok bwd → (∀ p ∈ acc, Z s0 p.2) → ∀ p ∈ bwd, Z s0 p.2
  | [], acc, bwd, h, hacc => by
    rw [backwardScopes] at h
    cases h
    exact hacc
  | n :: ns, acc, bwd, h, hacc => by
    rw [backwardScopes] at h
    split at h
    · cases h
    · rename_i scopes hscopes
      refine backwardScopes_start a hk ns _ bwd h ?_
      intro p hp
      rcases List.mem_append.1 hp with hp | hp
      · exact hacc p hp
      · rw [List.mem_singleton.1 hp]
        refine z_flatten ?_
        intro y hy
        obtain ⟨es, _, hf⟩ := StrProg.mapR_out hscopes y hy
        split at hf
        · cases hf
        · rename_i w hw
          cases hf
          have hw' : a.g.weight? es.2 = some w := by
            unfold Automaton.state at hw
            split at hw
            · rename_i w' hw'
              cases hw
              exact hw'
            · cases hw
          exact z_append (alGet_getD_prop z_nil hacc es.2)
            (z_flatMap fun m hm => hk es.2 w hw' m hm)

omit [DecidableEq K] in
theorem backwardScopes_get_start {a : Automaton K P}
    (hk : ∀ s w, a.g.weight? s = some w → ∀ m ∈ w.matches_, m.2 ≠ [] → s0 ∈ m.2)
    {ns : List Nat} {bwd : List (Nat × List K)} (h : backwardScopes a ns [] = .ok bwd)
    {n : Nat} {b : List K} (hb : alGet bwd n = some b) : b ≠ [] → s0 ∈ b := by
  obtain ⟨p, hp, hv⟩ := StrProg.alGet_some_mem hb
  exact hv ▸ backwardScopes_start a hk ns [] bwd h (fun p hp => by cases hp) p hp

/-! ### `setScopes` and `populateScopes` -/

omit [DecidableEq K] in
/-- Every constraint listed by `constraints(state)` is carried by a live edge. -/
theorem constraintsAt_mem {a : Automaton K P} {n : Nat} {cs : List (Constraint K P)}
    (h : a.constraintsAt n = .ok cs) :
    ∀ c ∈ cs, ∃ t e, a.g.edge? t = some e ∧ e.w = some c := by
  intro c hc
  unfold constraintsAt at h
  split at h
  · cases h
  · obtain ⟨t, _, hf⟩ := StrProg.mapR_out h c hc
    split at hf
    · cases hf
    · cases hf
    · rename_i c' hc'
      cases hf
      obtain ⟨e, he, hw⟩ := constraintOf_ok_iff.1 hc'
      exact ⟨t, e, he, hw⟩

theorem setScopes_shP (hs : Pk s0) (fuel : Nat) (fwd bwd : List (Nat × List K))
    (hfwd : ∀ n f, alGet fwd n = some f → ShP s0 Pk f)
    (hbwd : ∀ n b, alGet bwd n = some b → b ≠ [] → s0 ∈ b) :
    ∀ (ns : List Nat) (a a' : Automaton K P), ns.Nodup → EdgeKeys Pk a →
      setScopes (starReq s0) fuel fwd bwd a ns = .ok a' →
      ∀ n ∈ ns, ∀ w, a'.g.weight? n = some w → ShP s0 Pk w.scope
  | [], _, _, _, _, _, n, hn => by cases hn
  | m :: ns, a, a', hnd, hQ, h, n, hn => by
    rw [List.nodup_cons] at hnd
    obtain ⟨f, b, cs, more, a1, hf, hb, hcs, hmore, hmod, hrest⟩ := setScopes_cons_ok h
    have hQ1 : EdgeKeys Pk a1 := by
      intro t e c he hw
      rw [(modifyState_scope hmod).edge?] at he
      exact hQ t e c he hw
    rcases List.mem_cons.1 hn with rfl | hn
    · intro w' hw'
      obtain ⟨hlive, _⟩ := modifyState_ok_wf hmod
      have hw := weight?_of_live hlive
      have hw1 := modifyState_weight?_self hmod hw
      have hnode := setScopes_untouched (starReq s0) fuel fwd bwd n ns a1 a' hnd.1 hrest
      have : a'.g.weight? n = a1.g.weight? n := by
        unfold SGraph.weight?; rw [hnode]
      rw [this, hw1] at hw'
      cases hw'
      show ShP s0 Pk (_ ++ more)
      refine shP_append_allMissing hs (shP_filter (hfwd n f hf) (hbwd n b hb)) ?_ hmore
      intro k hk
      obtain ⟨c, hc, hkc⟩ := List.mem_flatMap.1 hk
      obtain ⟨t, e, he, hw⟩ := constraintsAt_mem hcs c hc
      exact hQ t e c he hw k hkc
    · exact setScopes_shP hs fuel fwd bwd hfwd hbwd ns a1 a' hnd.2 hQ1 hrest n hn

/-- **Every scope computed by `populate_scopes` on a star scheme has the shape `ShP`**, provided
the start key and every edge-constraint key satisfy `Pk` and every non-empty recorded key list
contains the start key. -/
theorem populateScopes_shP {fuel : Nat} {a A : Automaton K P} (hs : Pk s0)
    (h : Automaton.populateScopes (starReq s0) fuel a = .ok A) (hQ : EdgeKeys Pk a)
    (hk : ∀ s w, a.g.weight? s = some w → ∀ m ∈ w.matches_, m.2 ≠ [] → s0 ∈ m.2) :
    ∀ s w, A.g.weight? s = some w → ShP s0 Pk w.scope := by
  intro s w hw
  have hsame := populateScopes_sameButScope h
  have hlive : s ∈ a.g.nodeIndices := by
    rw [SGraph.mem_nodeIndices, ← hsame.containsNode]
    exact live_of_weight? hw
  unfold populateScopes at h
  split at h
  · cases h
  · split at h
    · rename_i fwd bwd hfwd hbwd
      exact setScopes_shP hs fuel fwd bwd
        (fun n f hf => forwardScopes_get_shP hs hQ hfwd hf)
        (fun n b hb => backwardScopes_get_start hk hbwd hb)
        _ a A (SGraph.nodup_nodeIndices a.g) hQ h s hlive w hw
    · cases h
    · cases h

/-! ### The matrix scheme -/

/-- The matrix scheme is rank-acyclic. -/
theorem matReq_acyclic : RankAcyclic matReq := starReq_acyclic ((0 : Int), (0 : Int))

/-- **Scopes of the matrix scheme**: every scope computed by `populate_scopes` is empty or starts
with the start key `(0,0)`, which does not occur again, and all its keys are non-negative —
provided every edge-constraint key is non-negative and every non-empty recorded key list contains
the start key. -/
theorem populateScopes_mat {fuel : Nat} {a A : Automaton MKey P}
    (h : Automaton.populateScopes matReq fuel a = .ok A)
    (hQ : ∀ t e c, a.g.edge? t = some e → e.w = some c → ∀ k ∈ c.args, 0 ≤ k.1 ∧ 0 ≤ k.2)
    (hk : ∀ s w, a.g.weight? s = some w → ∀ m ∈ w.matches_, m.2 ≠ [] → ((0, 0) : MKey) ∈ m.2) :
    ∀ s w, A.g.weight? s = some w →
      (w.scope = [] ∨ ∃ rest, w.scope = (0, 0) :: rest ∧ (0, 0) ∉ rest) ∧ AnchM.NN w.scope := by
  intro s w hw
  exact populateScopes_shP (s0 := ((0 : Int), (0 : Int)))
    (Pk := fun k : MKey => 0 ≤ k.1 ∧ 0 ≤ k.2) ⟨Int.le_refl _, Int.le_refl _⟩ h hQ hk s w hw

end MatProg
end Pm
