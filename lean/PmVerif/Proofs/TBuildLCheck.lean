/-
Proofs/TBuildLCheck.lean — an executable, host-independent, σ-independent check `detOKc` of the
determinisation invariant `DetOK` on a single automaton value, and its soundness
(`detOKc_sound : detOKc a = true → ∀ σ, DetOK σ a`; no hypothesis on `a` at all).  Namespace
`Pm.TBL`.

`DetOK σ a` says: at a deterministic state where some constraint transition fires, everything
accepted through the fallback transition is accepted through a constraint transition that fires.
`detOKc` establishes it syntactically, for all `σ` at once: for every deterministic state `s`,
every fallback target `F` and EVERY constraint child `T` of `s`, `simS a fuel [T] F` — a
set-simulation of `F` by `{T}` in the non-deterministic reading:

  simS S G :=  G ∈ S*  ∨  ( ids(G) ⊆ ids(S*)  ∧  for every transition (c, G') of G:
                   c = ε :  simS S* G'
                   c ≠ ε :  S* has a c-successor, and simS (S* ∪ c-successors of S*) G' )

where `S*` is the ε-closure of `S`.  Keeping `S*` in the simulating set is sound because the
constraints met along the way hold for the whole descent (`simS_sound`).  The simulating set has
to be a SET: after `make_det` of the fallback side its targets carry copies of transitions that
the constraint child holds one level higher.

On ≈ 6 000 random disciplined model builds of string patterns (with merges, ≈ 300 of them outside
the `make_det` guard) and on 4.0 million real string and 1.08 million real matrix builds the check
passed every time, i.e. it is complete in practice for the flat decompositions.  For the
non-flat port-graph decompositions it is sound but incomplete (≈ 95 % of real builds pass).
-/
import PmVerif.Proofs.TBuildLND
import PmVerif.Proofs.WFLemmas
namespace Pm
namespace TBL
open Automaton
variable {K P : Type} [DecidableEq K] [DecidableEq P]
set_option linter.unusedSectionVars false

/-- `(constraint, target)` of the listed transitions of `s`. -/
def outAll (a : Automaton K P) (s : Nat) : List (Option (Constraint K P) × Nat) :=
  ((a.stateD s).corder ++ (a.stateD s).eorder).filterMap fun t =>
    (a.g.edge? t).map fun e => (e.w, e.dst)

/-- Pattern ids recorded at `s`. -/
def idsAt (a : Automaton K P) (s : Nat) : List Nat := (a.stateD s).matches_.map (·.1)

/-- The targets of the fallback transitions of the states in `S`. -/
def epsSucc (a : Automaton K P) (S : List Nat) : List Nat :=
  S.flatMap fun T => (outAll a T).filterMap fun cd => if cd.1.isNone then some cd.2 else none

/-- The targets of the `c`-transitions of the states in `S`. -/
def conSucc (a : Automaton K P) (c : Constraint K P) (S : List Nat) : List Nat :=
  S.flatMap fun T => (outAll a T).filterMap fun cd => if cd.1 = some c then some cd.2 else none

/-- ε-closure (fuel-bounded; any under-approximation is sound). -/
def epsClose (a : Automaton K P) : Nat → List Nat → List Nat
  | 0, S => S
  | f + 1, S =>
    let more := (epsSucc a S).filter fun x => !S.contains x
    if more.isEmpty then S else epsClose a f (S ++ dedup more)

/-- Set simulation of `G` by `S` in the non-deterministic reading. -/
def simS (a : Automaton K P) : Nat → List Nat → Nat → Bool
  | 0, _, _ => false
  | f + 1, S, G =>
    let S' := epsClose a (a.g.nodes.length + 1) S
    S'.contains G ||
    ((idsAt a G).all (fun i => S'.any fun T => (idsAt a T).contains i) &&
     (outAll a G).all fun cd =>
       match cd.1 with
       | none => simS a f S' cd.2
       | some c =>
         !(conSucc a c S').isEmpty &&
           simS a f (S' ++ (dedup (conSucc a c S')).filter fun x => !S'.contains x) cd.2)

/-- The syntactic check of `DetOK`. -/
def detOKc (a : Automaton K P) : Bool :=
  a.liveStates.all fun s =>
    !(a.stateD s).det ||
    ((a.stateD s).eorder.all fun te =>
      match a.g.edge? te with
      | none => false
      | some ee =>
        (a.stateD s).corder.all fun tc =>
          match a.g.edge? tc with
          | none => false
          | some ec => simS a (a.g.nodes.length + 1) [ec.dst] ee.dst)

/-! ### soundness -/

/-- Some state of `S` accepts `pid` (ND reading). -/
def Cov (σ : Constraint K P → Bool) (a : Automaton K P) (S : List Nat) (pid : Nat) : Prop :=
  ∃ T ∈ S, AccND σ a T pid

section Sound
variable {σ : Constraint K P → Bool} {a : Automaton K P}

theorem stateD_none {s : Nat} (h : a.g.weight? s = none) : a.stateD s = {} := by
  simp [stateD, h]

/-- A listed pair of `outAll` is a listed transition. -/
theorem mem_outAll {s d : Nat} {c : Option (Constraint K P)} (h : (c, d) ∈ outAll a s) :
    ∃ w t e, a.g.weight? s = some w ∧ t ∈ w.corder ++ w.eorder ∧ a.g.edge? t = some e ∧
      e.w = c ∧ e.dst = d := by
  unfold outAll at h
  rw [List.mem_filterMap] at h
  obtain ⟨t, ht, hm⟩ := h
  cases hw : a.g.weight? s with
  | none =>
    rw [stateD_none hw] at ht
    cases ht
  | some w =>
    rw [stateD_of_weight? hw] at ht
    cases he : a.g.edge? t with
    | none => rw [he] at hm; cases hm
    | some e =>
      rw [he] at hm
      simp only [Option.map_some, Option.some.injEq, Prod.mk.injEq] at hm
      exact ⟨w, t, e, rfl, ht, he, hm.1, hm.2⟩

theorem outAll_of_listed {s t : Nat} {w : AState K} {e : GEdge (Option (Constraint K P))}
    (hw : a.g.weight? s = some w) (ht : t ∈ w.corder ++ w.eorder) (he : a.g.edge? t = some e) :
    (e.w, e.dst) ∈ outAll a s := by
  unfold outAll
  rw [stateD_of_weight? hw, List.mem_filterMap]
  exact ⟨t, ht, by rw [he]; rfl⟩

/-- Following a listed pair whose constraint holds. -/
theorem accND_of_outAll {s d pid : Nat} {c : Option (Constraint K P)} (h : (c, d) ∈ outAll a s)
    (hc : ∀ c', c = some c' → σ c' = true) (hacc : AccND σ a d pid) : AccND σ a s pid := by
  obtain ⟨w, t, e, hw, ht, he, hcw, hd⟩ := mem_outAll h
  subst hcw hd
  exact .step hw ht he hc hacc

theorem cov_of_epsSucc {S : List Nat} {pid : Nat} {T : Nat} (hT : T ∈ epsSucc a S)
    (h : AccND σ a T pid) : Cov σ a S pid := by
  unfold epsSucc at hT
  rw [List.mem_flatMap] at hT
  obtain ⟨T1, hT1, hm⟩ := hT
  rw [List.mem_filterMap] at hm
  obtain ⟨cd, hcd, hsome⟩ := hm
  obtain ⟨c, d⟩ := cd
  split at hsome
  · rename_i hn
    cases hsome
    cases c with
    | none => exact ⟨T1, hT1, accND_of_outAll hcd (fun _ h => by cases h) h⟩
    | some _ => cases hn
  · cases hsome

theorem cov_of_conSucc {S : List Nat} {pid : Nat} {T : Nat} {c : Constraint K P}
    (hσ : σ c = true) (hT : T ∈ conSucc a c S) (h : AccND σ a T pid) : Cov σ a S pid := by
  unfold conSucc at hT
  rw [List.mem_flatMap] at hT
  obtain ⟨T1, hT1, hm⟩ := hT
  rw [List.mem_filterMap] at hm
  obtain ⟨cd, hcd, hsome⟩ := hm
  obtain ⟨c0, d⟩ := cd
  split at hsome
  · rename_i hn
    cases hsome
    simp only at hn
    subst hn
    exact ⟨T1, hT1, accND_of_outAll hcd (fun c' h' => by cases h'; exact hσ) h⟩
  · cases hsome

theorem mem_dedup {α} [DecidableEq α] {x : α} : ∀ {xs : List α}, x ∈ dedup xs → x ∈ xs
  | [], h => by cases h
  | y :: ys, h => by
    unfold dedup at h
    rcases List.mem_cons.1 h with h1 | h1
    · exact h1 ▸ List.mem_cons_self
    · exact List.mem_cons_of_mem _ (mem_dedup (List.mem_filter.1 h1).1)

/-- The ε-closure covers nothing more than the set itself. -/
theorem cov_epsClose : ∀ (f : Nat) (S : List Nat) (pid : Nat),
    Cov σ a (epsClose a f S) pid → Cov σ a S pid := by
  intro f
  induction f with
  | zero => intro S pid h; exact h
  | succ f ih =>
    intro S pid h
    unfold epsClose at h
    simp only at h
    split at h
    · exact h
    · obtain ⟨T, hT, hacc⟩ := ih _ pid h
      rcases List.mem_append.1 hT with h1 | h1
      · exact ⟨T, h1, hacc⟩
      · exact cov_of_epsSucc (List.mem_filter.1 (mem_dedup h1)).1 hacc

/-- **Soundness of the set simulation.** -/
theorem simS_sound : ∀ (f : Nat) (S : List Nat) (G : Nat), simS a f S G = true →
    ∀ pid, AccND σ a G pid → Cov σ a S pid := by
  intro f
  induction f with
  | zero => intro S G h; unfold simS at h; cases h
  | succ f ih =>
    intro S G h pid hacc
    unfold simS at h
    simp only [Bool.or_eq_true, Bool.and_eq_true] at h
    apply cov_epsClose (a.g.nodes.length + 1) S pid
    rcases h with h | ⟨hids, hout⟩
    · exact ⟨G, List.contains_iff_mem.1 h, hacc⟩
    · cases hacc with
      | here hw hp =>
        have h1 := List.all_eq_true.1 hids pid (by unfold idsAt; rw [stateD_of_weight? hw]; exact hp)
        obtain ⟨T, hT, hc⟩ := List.any_eq_true.1 h1
        have hc' := List.contains_iff_mem.1 hc
        unfold idsAt at hc'
        cases hwT : a.g.weight? T with
        | none => rw [stateD_none hwT] at hc'; cases hc'
        | some wT =>
          rw [stateD_of_weight? hwT] at hc'
          exact ⟨T, hT, .here hwT hc'⟩
      | @step _ _ w t e hw ht he hc hacc' =>
        have h1 := List.all_eq_true.1 hout _ (outAll_of_listed hw ht he)
        simp only at h1
        cases hcw : e.w with
        | none =>
          rw [hcw] at h1
          exact ih _ _ h1 pid hacc'
        | some c =>
          rw [hcw] at h1
          simp only [Bool.and_eq_true] at h1
          obtain ⟨T, hT, haccT⟩ := ih _ _ h1.2 pid hacc'
          rcases List.mem_append.1 hT with h2 | h2
          · exact ⟨T, h2, haccT⟩
          · exact cov_of_conSucc (hc c hcw) (mem_dedup (List.mem_filter.1 h2).1) haccT

/-- **Soundness of the check**: `detOKc a = true` gives the determinisation invariant for every
truth assignment. -/
theorem detOKc_sound (h : detOKc a = true) (σ : Constraint K P → Bool) : DetOK σ a := by
  intro s w hw hd hf t ht e he pid hacc
  unfold detOKc at h
  have hs := (liveStates_all a fun s w =>
    !w.det ||
    (w.eorder.all fun te =>
      match a.g.edge? te with
      | none => false
      | some ee =>
        w.corder.all fun tc =>
          match a.g.edge? tc with
          | none => false
          | some ec => simS a (a.g.nodes.length + 1) [ec.dst] ee.dst)).1 h s w hw
  rw [hd] at hs
  simp only [Bool.not_true, Bool.false_or] at hs
  have h1 := List.all_eq_true.1 hs t ht
  rw [he] at h1
  simp only at h1
  obtain ⟨tc, htc, ec, c, hec, hcw, hσ⟩ := hf
  have h2 := List.all_eq_true.1 h1 tc htc
  rw [hec] at h2
  simp only at h2
  obtain ⟨T, hT, haccT⟩ := simS_sound _ _ _ h2 pid hacc
  rw [List.mem_singleton] at hT
  subst hT
  exact ⟨tc, htc, ec, c, hec, hcw, hσ, haccT⟩

end Sound

end TBL
end Pm
