/-
Proofs/BuildDet.lean — `make_det(s)` (Model/Builder.lean `makeDet`) preserves the structural
invariant, the root-is-a-source invariant, the language of the root and the determinisation
invariant `DetOKE`.
-/
import PmVerif.Proofs.BuildCommon
namespace Pm
namespace Automaton
variable {K P : Type}

/-! ### The determinisation invariant, split into "everywhere but `s`" and "at `s`" -/

/-- `DetOKE` restricted to the states other than `s`. -/
def DetEx (σ : Constraint K P → Bool) (a : Automaton K P) (s : Nat) : Prop :=
  ∀ z w, z ≠ s → a.g.weight? z = some w → w.det = true → Fires σ a z →
    ∀ pid, EAcc σ a z pid → CAcc σ a z pid

/-- The clause of `DetOKE` for the state `s`. -/
def DetAt (σ : Constraint K P → Bool) (a : Automaton K P) (s : Nat) : Prop :=
  ∀ w, a.g.weight? s = some w → w.det = true → Fires σ a s →
    ∀ pid, EAcc σ a s pid → CAcc σ a s pid

theorem detOKE_of_ex_at {σ : Constraint K P → Bool} {a : Automaton K P} {s : Nat}
    (h1 : DetEx σ a s) (h2 : DetAt σ a s) : DetOKE σ a := by
  intro z w hw hd hf pid hea
  by_cases hz : z = s
  · subst hz; exact h2 w hw hd hf pid hea
  · exact h1 z w hz hw hd hf pid hea

/-! ### `setDeterministic` -/

/-- `a0` is `a` with the flag of `s` (whose weight in `a` is `w`) set. -/
structure Reflag (a a0 : Automaton K P) (s : Nat) (w : AState K) : Prop where
  inv : Inv a0
  root : a0.root = a.root
  edge : ∀ t, a0.g.edge? t = a.g.edge? t
  wt_ne : ∀ x, x ≠ s → a0.g.weight? x = a.g.weight? x
  wt : a.g.weight? s = some w
  wt0 : a0.g.weight? s = some { w with det := true }

theorem setDeterministic_reflag {a a0 : Automaton K P} {s : Nat} {wd : Bool} (inv : Inv a)
    (h : a.setDeterministic s = .ok (a0, wd)) : ∃ w, wd = w.det ∧ Reflag a a0 s w := by
  unfold setDeterministic at h
  split at h
  · cases h
  · rename_i w hw
    rw [state_ok_iff] at hw
    split at h
    · cases h
    · rename_i a1 hm
      cases h
      obtain ⟨_, rfl⟩ := modifyState_ok hm
      refine ⟨w, rfl, Inv.setWeight inv s _ (fun _ => rfl) (fun _ => rfl), rfl, fun _ => rfl,
        fun x hx => ?_, hw, ?_⟩
      · show (a.g.setWeight s _).weight? x = _
        rw [SGraph.setWeight_weight?, if_neg (Ne.symm hx)]
      · show (a.g.setWeight s _).weight? s = _
        rw [SGraph.setWeight_weight?, if_pos rfl, hw]; rfl

section Reflag
variable {σ : Constraint K P → Bool} {a a0 : Automaton K P} {s : Nat} {w : AState K}

theorem Reflag.ids_iff (r : Reflag a a0 s w) (x pid : Nat) : a0.Ids x pid ↔ a.Ids x pid := by
  unfold Ids
  by_cases hx : x = s
  · subst hx; rw [r.wt, r.wt0]; simp
  · rw [r.wt_ne x hx]

theorem Reflag.live_iff (r : Reflag a a0 s w) (x : Nat) : a0.Live x ↔ a.Live x := by
  rw [Automaton.live_iff, Automaton.live_iff]
  by_cases hx : x = s
  · subst hx; rw [r.wt, r.wt0]; simp
  · rw [r.wt_ne x hx]

theorem Reflag.acc_iff (r : Reflag a a0 s w) (inv : Inv a) (x pid : Nat) :
    AccND σ a0 x pid ↔ AccND σ a x pid :=
  ⟨accND_congr r.inv.ok inv.ok (fun x pid => (r.ids_iff x pid).1)
      (fun t e he => by rw [← r.edge]; exact he),
    accND_congr inv.ok r.inv.ok (fun x pid => (r.ids_iff x pid).2)
      (fun t e he => by rw [r.edge]; exact he)⟩

theorem Reflag.fires_iff (r : Reflag a a0 s w) (z : Nat) : Fires σ a0 z ↔ Fires σ a z := by
  unfold Fires; simp only [r.edge]

theorem Reflag.eacc_iff (r : Reflag a a0 s w) (inv : Inv a) (z pid : Nat) :
    EAcc σ a0 z pid ↔ EAcc σ a z pid := by
  unfold EAcc; simp only [r.edge, r.acc_iff inv]

theorem Reflag.cacc_iff (r : Reflag a a0 s w) (inv : Inv a) (z pid : Nat) :
    CAcc σ a0 z pid ↔ CAcc σ a z pid := by
  unfold CAcc; simp only [r.edge, r.acc_iff inv]

theorem Reflag.detEx (r : Reflag a a0 s w) (inv : Inv a) (dok : DetOKE σ a) : DetEx σ a0 s := by
  intro z wz hz hwz hd hf pid hea
  rw [r.wt_ne z hz] at hwz
  rw [r.fires_iff] at hf
  rw [r.eacc_iff inv] at hea
  rw [r.cacc_iff inv]
  exact dok z wz hwz hd hf pid hea

theorem Reflag.detAt_of_wasDet (r : Reflag a a0 s w) (inv : Inv a) (dok : DetOKE σ a)
    (hd : w.det = true) : DetAt σ a0 s := by
  intro w0 _ _ hf pid hea
  rw [r.fires_iff] at hf
  rw [r.eacc_iff inv] at hea
  rw [r.cacc_iff inv]
  exact dok s w r.wt hd hf pid hea

theorem Reflag.detAt_of_noEps (r : Reflag a a0 s w) (he : w.eorder = []) : DetAt σ a0 s := by
  rintro w0 _ _ _ pid ⟨t, e, het, hsrc, hn, _⟩
  have hm := (mem_eorder_iff r.inv.ok r.wt0).2 ⟨e, het, hsrc, hn⟩
  change t ∈ w.eorder at hm
  rw [he] at hm; cases hm

theorem Reflag.rootSrc (r : Reflag a a0 s w) (rs : RootSrc a) : RootSrc a0 := by
  refine ⟨?_, fun t e he => ?_⟩
  · rw [r.root]; exact (r.live_iff _).2 rs.1
  · rw [r.edge] at he; rw [r.root]; exact rs.2 t e he

theorem Reflag.final (r : Reflag a a0 s w) (inv : Inv a) (rs : RootSrc a) (dok : DetOKE σ a)
    (hat : DetAt σ a0 s) :
    Inv a0 ∧ a0.root = a.root ∧ RootSrc a0 ∧
    (∀ pid, AccND σ a0 a0.root pid ↔ AccND σ a a.root pid) ∧ DetOKE σ a0 :=
  ⟨r.inv, r.root, r.rootSrc rs, fun pid => by rw [r.root]; exact r.acc_iff inv _ pid,
    detOKE_of_ex_at (r.detEx inv dok) hat⟩

end Reflag

/-! ### One round of `makeDetLoop`: structure -/

/-- What one round of the loop needs: `t` is a constraint transition `s → X`, `tε` the fallback
transition `s → F`, and `fw` the weight of `F`. -/
structure RoundPre (b : Automaton K P) (s F tε t X : Nat) (c : Constraint K P)
    (fw : AState K) : Prop where
  inv : Inv b
  edge_t : b.g.edge? t = some ⟨s, X, some c⟩
  edge_ε : b.g.edge? tε = some ⟨s, F, none⟩
  wtF : b.g.weight? F = some fw

section Round
variable {b b1 b2 b' : Automaton K P} {s F tε t X tgt : Nat} {c : Constraint K P} {fw : AState K}

theorem RoundPre.F_ne_s (pre : RoundPre b s F tε t X c fw) : F ≠ s :=
  fun h => pre.inv.noloop tε _ pre.edge_ε h.symm

theorem RoundPre.X_ne_s (pre : RoundPre b s F tε t X c fw) : X ≠ s :=
  fun h => pre.inv.noloop t _ pre.edge_t h.symm

theorem RoundPre.tε_ne_t (pre : RoundPre b s F tε t X c fw) : tε ≠ t := by
  intro h
  have h1 := pre.edge_ε
  rw [h, pre.edge_t] at h1
  cases h1

/-- The transitions of `F` are the edges leaving `F`. -/
theorem RoundPre.mem_fail (pre : RoundPre b s F tε t X c fw) {x : Nat} :
    x ∈ fw.corder ++ fw.eorder ↔ ∃ e, b.g.edge? x = some e ∧ e.src = F :=
  pre.inv.mem_all_iff pre.wtF

/-- Uniform description of `split_target(t)`: afterwards `t` leads to `tgt`, a state with the
accepted ids, the flag and (copies of) the outgoing edges of `X`, and `t` is the only transition
into `tgt`. -/
structure SplitU (b b1 : Automaton K P) (s F t X tgt : Nat) (c : Constraint K P) : Prop where
  inv : Inv b1
  root : b1.root = b.root
  wt_ne : ∀ y, y ≠ tgt → b1.g.weight? y = b.g.weight? y
  wt : ∃ ws w1, b.g.weight? X = some ws ∧ b1.g.weight? tgt = some w1 ∧
    w1.matches_ = ws.matches_ ∧ w1.det = ws.det
  edge_t : b1.g.edge? t = some ⟨s, tgt, some c⟩
  old : ∀ x e, x ≠ t → b.g.edge? x = some e → b1.g.edge? x = some e
  new : ∀ x e, b1.g.edge? x = some e → x = t ∨ b.g.edge? x = some e ∨
    (e.src = tgt ∧ e.dst ≠ tgt ∧ ∃ x0, b.g.edge? x0 = some ⟨X, e.dst, e.w⟩)
  covX : ∀ x0 e0, b.g.edge? x0 = some e0 → e0.src = X →
    ∃ x, b1.g.edge? x = some ⟨tgt, e0.dst, e0.w⟩
  only : ∀ x e, b1.g.edge? x = some e → e.dst = tgt → x = t
  neF : tgt ≠ F
  nes : tgt ≠ s
  cases : tgt = X ∨ ¬ b.Live tgt

theorem splitU_of_splitTarget (pre : RoundPre b s F tε t X c fw)
    (h : b.splitTarget t = .ok (b1, tgt)) : SplitU b b1 s F t X tgt c := by
  rcases splitTarget_spec pre.inv h with ⟨rfl, ⟨e, he, hd⟩, honly⟩ | ⟨ed, sp⟩
  · rw [pre.edge_t] at he; cases he
    simp only at hd; subst hd
    obtain ⟨ws, hws⟩ := live_iff.1 (pre.inv.ok.dst_live pre.edge_t)
    refine ⟨pre.inv, rfl, fun _ _ => rfl, ⟨ws, ws, hws, hws, rfl, rfl⟩, pre.edge_t,
      fun _ _ _ h => h, fun _ _ h => .inr (.inl h), fun x0 e0 he0 hs0 => ⟨x0, ?_⟩, honly, ?_,
      pre.X_ne_s, .inl rfl⟩
    · rw [he0]; cases e0; simp only at hs0; subst hs0; rfl
    · intro hF
      exact pre.tε_ne_t (honly tε _ pre.edge_ε hF.symm)
  · have hed : ed = ⟨s, X, some c⟩ := by
      have := sp.live; rw [pre.edge_t] at this; cases this; rfl
    subst hed
    have hlive : ∀ x e, b.g.edge? x = some e → e.dst ≠ tgt :=
      fun x e he hd => sp.fresh (hd ▸ pre.inv.ok.dst_live he)
    refine ⟨sp.inv, sp.root, sp.wt_ne, sp.wt, sp.edge_t, fun x e hx he => sp.old x e hx he,
      fun x e he => ?_, sp.copies, fun x e he hd => ?_, ?_, ?_, .inr sp.fresh⟩
    · rcases sp.new x e he with h1 | h1 | ⟨_, h2, x0, hx0⟩
      · exact .inl h1
      · exact .inr (.inl h1)
      · exact .inr (.inr ⟨h2, hlive x0 ⟨X, e.dst, e.w⟩ hx0, x0, hx0⟩)
    · rcases sp.new x e he with h1 | h1 | ⟨_, _, x0, hx0⟩
      · exact h1
      · exact absurd hd (hlive x e h1)
      · exact absurd hd (hlive x0 ⟨X, e.dst, e.w⟩ hx0)
    · intro hF; exact sp.fresh (hF ▸ live_of_weight pre.wtF)
    · intro hs; exact sp.fresh (hs ▸ pre.inv.ok.src_live pre.edge_t)

/-- Structural description of one round of `makeDetLoop` (processing `t : s → X`). -/
structure RoundSpec (b b' : Automaton K P) (s F t X tgt : Nat) (c : Constraint K P) : Prop where
  inv : Inv b'
  root : b'.root = b.root
  wt_ne : ∀ y, y ≠ tgt → b'.g.weight? y = b.g.weight? y
  ids_tgt : ∀ p, b'.Ids tgt p ↔ b.Ids X p ∨ b.Ids F p
  nondet : IsDet b' tgt → IsDet b X
  live_tgt : b'.Live tgt
  edge_t : b'.g.edge? t = some ⟨s, tgt, some c⟩
  old : ∀ x e, x ≠ t → b.g.edge? x = some e → b'.g.edge? x = some e
  new : ∀ x e, b'.g.edge? x = some e → x = t ∨ b.g.edge? x = some e ∨
    (e.src = tgt ∧ e.dst ≠ tgt ∧
      ∃ x0, b.g.edge? x0 = some ⟨X, e.dst, e.w⟩ ∨ b.g.edge? x0 = some ⟨F, e.dst, e.w⟩)
  covX : ∀ x0 e0, b.g.edge? x0 = some e0 → e0.src = X →
    ∃ x, b'.g.edge? x = some ⟨tgt, e0.dst, e0.w⟩
  covF : ∀ x0 e0, b.g.edge? x0 = some e0 → e0.src = F →
    ∃ x, b'.g.edge? x = some ⟨tgt, e0.dst, e0.w⟩
  only : ∀ x e, b'.g.edge? x = some e → e.dst = tgt → x = t
  neF : tgt ≠ F
  nes : tgt ≠ s
  cases : tgt = X ∨ ¬ b.Live tgt

theorem roundSpec_of (pre : RoundPre b s F tε t X c fw) (su : SplitU b b1 s F t X tgt c)
    (hcp : b1.appendCopies tgt (fw.corder ++ fw.eorder) = .ok b2)
    (hm : b2.addMatches tgt fw.matches_ = .ok b') : RoundSpec b b' s F t X tgt c := by
  obtain ⟨g, cov⟩ := appendCopies_grows _ su.inv hcp
  have am := addMatches_spec _ g.inv hm
  -- the transitions of `F` are untouched by the split
  have hfail : ∀ t0 ∈ fw.corder ++ fw.eorder, ∃ e0, b.g.edge? t0 = some e0 ∧ e0.src = F ∧
      b1.g.edge? t0 = some e0 := by
    intro t0 ht0
    obtain ⟨e0, he0, hs0⟩ := pre.mem_fail.1 ht0
    refine ⟨e0, he0, hs0, su.old t0 e0 ?_ he0⟩
    intro hx; subst hx
    rw [pre.edge_t] at he0; cases he0
    exact pre.F_ne_s hs0.symm
  obtain ⟨ws, w1, hws, hw1, hm1, hd1⟩ := su.wt
  obtain ⟨w2, hw2, hm2, hd2⟩ := g.wt w1 hw1
  obtain ⟨w3, hw3, hd3, _, _, hids⟩ := am.wt w2 hw2
  refine ⟨am.inv, am.root.trans (g.root.trans su.root),
    fun y hy => (am.wt_ne y hy).trans ((g.wt_ne y hy).trans (su.wt_ne y hy)), fun p => ?_, ?_,
    live_of_weight hw3, ?_, fun x e hx he => ?_, fun x e he => ?_, fun x0 e0 he0 hs0 => ?_,
    fun x0 e0 he0 hs0 => ?_, fun x e he hd => ?_, su.neF, su.nes, su.cases⟩
  · constructor
    · rintro ⟨w, hw, hp⟩
      rw [hw3] at hw; cases hw
      rcases (hids p).1 hp with h | h
      · exact .inl ⟨ws, hws, by rw [← hm1, ← hm2]; exact h⟩
      · exact .inr ⟨fw, pre.wtF, h⟩
    · rintro (⟨w, hw, hp⟩ | ⟨w, hw, hp⟩)
      · rw [hws] at hw; cases hw
        exact ⟨w3, hw3, (hids p).2 (.inl (by rw [hm2, hm1]; exact hp))⟩
      · rw [pre.wtF] at hw; cases hw
        exact ⟨w3, hw3, (hids p).2 (.inr hp)⟩
  · rintro ⟨w, hw, hd⟩
    rw [hw3] at hw; cases hw
    exact ⟨ws, hws, by rw [← hd1, ← hd2, ← hd3]; exact hd⟩
  · rw [am.edge]; exact g.old _ _ su.edge_t
  · rw [am.edge]; exact g.old _ _ (su.old x e hx he)
  · rw [am.edge] at he
    rcases g.new x e he with h1 | ⟨_, h2, ⟨t0, ht0, e0, he0, hd0, hw0⟩, hne⟩
    · rcases su.new x e h1 with h3 | h3 | ⟨h3, h4, x0, hx0⟩
      · exact .inl h3
      · exact .inr (.inl h3)
      · exact .inr (.inr ⟨h3, h4, x0, .inl hx0⟩)
    · obtain ⟨e0', he0', hs0, he1⟩ := hfail t0 ht0
      rw [he0] at he1; cases he1
      refine .inr (.inr ⟨h2, hne, t0, .inr ?_⟩)
      rw [he0']; cases e0; simp only at hs0 hd0 hw0; subst hs0 hd0 hw0; rfl
  · obtain ⟨x, hx⟩ := su.covX x0 e0 he0 hs0
    exact ⟨x, by rw [am.edge]; exact g.old _ _ hx⟩
  · obtain ⟨e0', he0', _, he1⟩ := hfail x0 (pre.mem_fail.2 ⟨e0, he0, hs0⟩)
    rw [he0] at he0'; cases he0'
    have hne : e0.dst ≠ tgt := by
      intro hd
      have hx := su.only x0 e0 he1 hd
      subst hx
      rw [pre.edge_t] at he0; cases he0
      exact pre.F_ne_s hs0.symm
    obtain ⟨x, hx⟩ := cov x0 (pre.mem_fail.2 ⟨e0, he0, hs0⟩) e0 he1 hne
    exact ⟨x, by rw [am.edge]; exact hx⟩
  · rw [am.edge] at he
    rcases g.new x e he with h1 | ⟨_, _, _, hne⟩
    · exact su.only x e h1 hd
    · exact absurd hd hne

end Round

/-! ### One round of `makeDetLoop`: languages -/

section Lang
variable {σ : Constraint K P → Bool} {b b' : Automaton K P} {s F tε t X tgt : Nat}
  {c : Constraint K P} {fw : AState K}

theorem RoundSpec.dst_ne_tgt (rs : RoundSpec b b' s F t X tgt c) {x d : Nat}
    {w : Option (Constraint K P)} (h : b'.g.edge? x = some ⟨tgt, d, w⟩) : d ≠ tgt := by
  intro hd
  have hx := rs.only x _ h hd
  subst hx
  have h2 := rs.edge_t
  rw [h] at h2
  simp only [Option.some.injEq, GEdge.mk.injEq] at h2
  exact rs.nes h2.1

/-- Everything accepted before the round is still accepted (and `tgt` accepts what `X` and `F`
accepted). -/
theorem RoundSpec.acc_mono (pre : RoundPre b s F tε t X c fw)
    (rs : RoundSpec b b' s F t X tgt c) {y pid : Nat} (h : AccND σ b y pid) :
    (y ≠ tgt → AccND σ b' y pid) ∧ (y = X → AccND σ b' tgt pid) ∧
      (y = F → AccND σ b' tgt pid) := by
  refine AccND.edge_induction pre.inv.ok (T := fun y pid => (y ≠ tgt → AccND σ b' y pid) ∧
    (y = X → AccND σ b' tgt pid) ∧ (y = F → AccND σ b' tgt pid)) ?_ ?_ h
  · intro y pid hi
    refine ⟨fun hy => .of_ids ?_, fun hy => .of_ids ((rs.ids_tgt pid).2 (.inl (hy ▸ hi))),
      fun hy => .of_ids ((rs.ids_tgt pid).2 (.inr (hy ▸ hi)))⟩
    obtain ⟨w, hw, hp⟩ := hi
    exact ⟨w, (rs.wt_ne y hy).trans hw, hp⟩
  · intro x e pid he hc _ ih
    refine ⟨fun hy => ?_, fun hy => ?_, fun hy => ?_⟩
    · by_cases hx : x = t
      · subst hx
        rw [pre.edge_t] at he; cases he
        exact AccND.of_edge (e := ⟨s, tgt, some c⟩) rs.inv.ok rs.edge_t hc (ih.2.1 rfl)
      · have he' := rs.old x e hx he
        have hd : e.dst ≠ tgt := fun hd => hx (rs.only x e he' hd)
        exact AccND.of_edge rs.inv.ok he' hc (ih.1 hd)
    · obtain ⟨x', hx'⟩ := rs.covX x e he hy
      exact AccND.of_edge rs.inv.ok hx' hc (ih.1 (rs.dst_ne_tgt hx'))
    · obtain ⟨x', hx'⟩ := rs.covF x e he hy
      exact AccND.of_edge rs.inv.ok hx' hc (ih.1 (rs.dst_ne_tgt hx'))

/-- Nothing new is accepted, except that `tgt` accepts the union of `X` and `F`. -/
theorem RoundSpec.acc_back (pre : RoundPre b s F tε t X c fw)
    (rs : RoundSpec b b' s F t X tgt c) {y pid : Nat} (h : AccND σ b' y pid) :
    (y = tgt → AccND σ b X pid ∨ AccND σ b F pid) ∧ (y ≠ tgt → AccND σ b y pid) := by
  refine AccND.edge_induction rs.inv.ok (T := fun y pid =>
    (y = tgt → AccND σ b X pid ∨ AccND σ b F pid) ∧ (y ≠ tgt → AccND σ b y pid)) ?_ ?_ h
  · intro y pid hi
    refine ⟨fun hy => ?_, fun hy => ?_⟩
    · subst hy
      rcases (rs.ids_tgt pid).1 hi with h1 | h1
      · exact .inl (.of_ids h1)
      · exact .inr (.of_ids h1)
    · obtain ⟨w, hw, hp⟩ := hi
      exact .of_ids ⟨w, (rs.wt_ne y hy).symm.trans hw, hp⟩
  · intro x e pid he hc _ ih
    by_cases hx : x = t
    · subst hx
      rw [rs.edge_t] at he; cases he
      have hs : AccND σ b s pid := by
        rcases ih.1 rfl with h1 | h1
        · exact AccND.of_edge pre.inv.ok pre.edge_t hc h1
        · exact AccND.of_edge pre.inv.ok pre.edge_ε (holds_none σ) h1
      exact ⟨fun hy => absurd hy.symm rs.nes, fun _ => hs⟩
    · have hd : e.dst ≠ tgt := fun hd => hx (rs.only x e he hd)
      have ihd := ih.2 hd
      rcases rs.new x e he with h1 | hold | ⟨hsrc, _, x0, hx0 | hx0⟩
      · exact absurd h1 hx
      · have hacc := AccND.of_edge pre.inv.ok hold hc ihd
        refine ⟨fun hy => ?_, fun _ => hacc⟩
        rcases rs.cases with hX | hdead
        · left; rw [← hX, ← hy]; exact hacc
        · exact absurd (hy ▸ pre.inv.ok.src_live hold) hdead
      · have hacc : AccND σ b X pid := AccND.of_edge pre.inv.ok hx0 hc ihd
        exact ⟨fun _ => .inl hacc, fun hy => absurd hsrc hy⟩
      · have hacc : AccND σ b F pid := AccND.of_edge pre.inv.ok hx0 hc ihd
        exact ⟨fun _ => .inr hacc, fun hy => absurd hsrc hy⟩

theorem RoundSpec.lang_ne (pre : RoundPre b s F tε t X c fw)
    (rs : RoundSpec b b' s F t X tgt c) {y : Nat} (hy : y ≠ tgt) (pid : Nat) :
    AccND σ b' y pid ↔ AccND σ b y pid :=
  ⟨fun h => (rs.acc_back pre h).2 hy, fun h => (rs.acc_mono pre h).1 hy⟩

theorem RoundSpec.lang_tgt (pre : RoundPre b s F tε t X c fw)
    (rs : RoundSpec b b' s F t X tgt c) (pid : Nat) :
    AccND σ b' tgt pid ↔ AccND σ b X pid ∨ AccND σ b F pid :=
  ⟨fun h => (rs.acc_back pre h).1 rfl, fun h => h.elim (fun h => (rs.acc_mono pre h).2.1 rfl)
    (fun h => (rs.acc_mono pre h).2.2 rfl)⟩

/-- The deterministic states other than `s` keep their transitions and the languages of their
targets. -/
theorem RoundSpec.detEx (pre : RoundPre b s F tε t X c fw)
    (rs : RoundSpec b b' s F t X tgt c) (hX : ¬ IsDet b X) (h : DetEx σ b s) :
    DetEx σ b' s := by
  intro z w hz hw hd hf pid hea
  have hzt : z ≠ tgt := by
    intro hzt; subst hzt
    exact hX (rs.nondet ⟨w, hw, hd⟩)
  have hw0 : b.g.weight? z = some w := (rs.wt_ne z hzt).symm.trans hw
  have hedge : ∀ x e, b'.g.edge? x = some e → e.src = z →
      b.g.edge? x = some e ∧ e.dst ≠ tgt := by
    intro x e he hsrc
    have hxt : x ≠ t := by
      intro hx; subst hx
      rw [rs.edge_t] at he; cases he
      exact hz hsrc.symm
    refine ⟨?_, fun hd => hxt (rs.only x e he hd)⟩
    rcases rs.new x e he with h1 | h1 | ⟨h1, _⟩
    · exact absurd h1 hxt
    · exact h1
    · exact absurd (hsrc.symm.trans h1) hzt
  have hf0 : Fires σ b z := by
    obtain ⟨x, e, c', he, hsrc, hc, hσ⟩ := hf
    exact ⟨x, e, c', (hedge x e he hsrc).1, hsrc, hc, hσ⟩
  have hea0 : EAcc σ b z pid := by
    obtain ⟨x, e, he, hsrc, hn, hacc⟩ := hea
    obtain ⟨h1, h2⟩ := hedge x e he hsrc
    exact ⟨x, e, h1, hsrc, hn, (rs.lang_ne pre h2 pid).1 hacc⟩
  obtain ⟨x, e, c', he, hsrc, hc, hσ, hacc⟩ := h z w hz hw0 hd hf0 pid hea0
  have hxt : x ≠ t := by
    intro hx; subst hx
    rw [pre.edge_t] at he; cases he
    exact hz hsrc.symm
  have he' := rs.old x e hxt he
  have hd' : e.dst ≠ tgt := fun hd => hxt (rs.only x e he' hd)
  exact ⟨x, e, c', he', hsrc, hc, hσ, (rs.lang_ne pre hd' pid).2 hacc⟩

theorem RoundSpec.rootSrc (pre : RoundPre b s F tε t X c fw)
    (rs : RoundSpec b b' s F t X tgt c) (h : RootSrc b) : RootSrc b' ∧ b.root ≠ tgt := by
  have hroot : b.root ≠ tgt := by
    rcases rs.cases with hX | hdead
    · rw [hX]; exact fun hx => h.2 t _ pre.edge_t hx.symm
    · exact fun hx => hdead (hx ▸ h.1)
  refine ⟨⟨?_, fun x e he => ?_⟩, hroot⟩
  · obtain ⟨w, hw⟩ := live_iff.1 h.1
    rw [rs.root]
    exact live_of_weight ((rs.wt_ne _ hroot).trans hw)
  · rw [rs.root]
    rcases rs.new x e he with h1 | h1 | ⟨_, _, x0, h1 | h1⟩
    · subst h1
      rw [rs.edge_t] at he; cases he
      exact Ne.symm hroot
    · exact h.2 x e h1
    · exact h.2 x0 ⟨X, e.dst, e.w⟩ h1
    · exact h.2 x0 ⟨F, e.dst, e.w⟩ h1

end Lang

/-! ### The loop invariant -/

/-- Invariant of `makeDetLoop` started in `a0`; `rest` are the constraint transitions of `s`
still to process, `ws` / `fw` the (unchanging) weights of `s` and of the fallback state `F`. -/
structure LoopInv (σ : Constraint K P → Bool) (a0 b : Automaton K P) (s F tε : Nat)
    (ws fw : AState K) (rest : List Nat) : Prop where
  inv : Inv b
  root : b.root = a0.root
  wts : b.g.weight? s = some ws
  wtF : b.g.weight? F = some fw
  edge_ε : b.g.edge? tε = some ⟨s, F, none⟩
  todo : ∀ t ∈ rest, ∃ X c, b.g.edge? t = some ⟨s, X, some c⟩ ∧ ¬ IsDet b X
  done : ∀ t ∈ ws.corder, t ∉ rest → ∃ e, b.g.edge? t = some e ∧
    (∀ pid, AccND σ b F pid → AccND σ b e.dst pid) ∧
    (∀ x e', b.g.edge? x = some e' → e'.dst = e.dst → x = t)
  rootSrc : RootSrc b
  rootLang : ∀ pid, AccND σ b b.root pid ↔ AccND σ a0 a0.root pid
  detEx : DetEx σ b s

section Loop
variable {σ : Constraint K P → Bool} {a0 b b' : Automaton K P} {s F tε t X tgt : Nat}
  {c : Constraint K P} {ws fw : AState K} {rest : List Nat}

theorem LoopInv.step (li : LoopInv σ a0 b s F tε ws fw (t :: rest)) (hnd : t ∉ rest)
    (pre : RoundPre b s F tε t X c fw) (rs : RoundSpec b b' s F t X tgt c) :
    LoopInv σ a0 b' s F tε ws fw rest := by
  have hX : ¬ IsDet b X := by
    obtain ⟨X', c', he, hn⟩ := li.todo t List.mem_cons_self
    rw [pre.edge_t] at he; cases he; exact hn
  obtain ⟨rs', hroot⟩ := rs.rootSrc pre li.rootSrc
  refine ⟨rs.inv, rs.root.trans li.root, (rs.wt_ne s (Ne.symm rs.nes)).trans li.wts,
    (rs.wt_ne F (Ne.symm rs.neF)).trans li.wtF, rs.old tε _ pre.tε_ne_t pre.edge_ε, ?_, ?_, rs',
    ?_, rs.detEx pre hX li.detEx⟩
  · intro t' ht'
    have hne : t' ≠ t := fun h => hnd (h ▸ ht')
    obtain ⟨X', c', he, hn⟩ := li.todo t' (List.mem_cons_of_mem _ ht')
    have he' := rs.old t' _ hne he
    refine ⟨X', c', he', fun hdet => ?_⟩
    have hd : X' ≠ tgt := fun hd => hne (rs.only t' _ he' hd)
    obtain ⟨w, hw, hdw⟩ := hdet
    exact hn ⟨w, (rs.wt_ne X' hd).symm.trans hw, hdw⟩
  · intro t1 ht1 hnr
    by_cases h1 : t1 = t
    · subst h1
      exact ⟨_, rs.edge_t, fun pid h => (rs.lang_tgt pre pid).2
        (.inr ((rs.lang_ne pre (Ne.symm rs.neF) pid).1 h)), fun x e' he' hd => rs.only x e' he' hd⟩
    · obtain ⟨e, he, hsub, honly⟩ := li.done t1 ht1 (by
        intro hm; rcases List.mem_cons.1 hm with h | h
        · exact h1 h
        · exact hnr h)
      have he' := rs.old t1 e h1 he
      have hd : e.dst ≠ tgt := fun hd => h1 (rs.only t1 e he' hd)
      have hsrc : e.src = s := by
        obtain ⟨e2, he2, hs, _⟩ := li.inv.ok.corder_edge s ws li.wts t1 ht1
        rw [he] at he2; cases he2; exact hs
      refine ⟨e, he', fun pid h => (rs.lang_ne pre hd pid).2
        (hsub pid ((rs.lang_ne pre (Ne.symm rs.neF) pid).1 h)), fun x e' hx hdd => ?_⟩
      rcases rs.new x e' hx with h2 | h2 | ⟨_, _, x0, h2 | h2⟩
      · subst h2
        rw [rs.edge_t] at hx; cases hx
        exact absurd hdd.symm hd
      · exact honly x e' h2 hdd
      · have hx0 := honly x0 ⟨X, e'.dst, e'.w⟩ h2 hdd
        subst hx0
        rw [he] at h2; cases h2
        exact absurd hsrc pre.X_ne_s
      · have hx0 := honly x0 ⟨F, e'.dst, e'.w⟩ h2 hdd
        subst hx0
        rw [he] at h2; cases h2
        exact absurd hsrc pre.F_ne_s
  · intro pid
    rw [rs.root]
    exact (rs.lang_ne pre hroot pid).trans (li.rootLang pid)

/-- After the loop the clause of `DetOKE` for `s` holds: every constraint child of `s` accepts
what the fallback state accepts. -/
theorem LoopInv.detAt (li : LoopInv σ a0 b s F tε ws fw []) (hε : ws.eorder = [tε]) :
    DetAt σ b s := by
  intro w hw _ hf pid hea
  rw [li.wts] at hw; cases hw
  obtain ⟨x, e, he, hsrc, hn, hacc⟩ := hea
  have hx : x ∈ ws.eorder := (mem_eorder_iff li.inv.ok li.wts).2 ⟨e, he, hsrc, hn⟩
  rw [hε, List.mem_singleton] at hx; subst hx
  rw [li.edge_ε] at he; cases he
  obtain ⟨t, e, c, he, hsrc, hc, hσ⟩ := hf
  have ht : t ∈ ws.corder := (mem_corder_iff li.inv.ok li.wts).2 ⟨e, he, hsrc, by simp [hc]⟩
  obtain ⟨e', he', hsub, _⟩ := li.done t ht List.not_mem_nil
  rw [he] at he'; cases he'
  exact ⟨t, e, c, he, hsrc, hc, hσ, hsub pid hacc⟩

end Loop

/-! ### `makeDetLoop`, `makeDet` -/

section Main

theorem makeDetLoop_inv {σ : Constraint K P → Bool} {a0 : Automaton K P} {s F tε : Nat}
    {ws fw : AState K} : ∀ (rest : List Nat) {b a' : Automaton K P},
    LoopInv σ a0 b s F tε ws fw rest → rest.Nodup →
    b.makeDetLoop (fw.corder ++ fw.eorder) fw.matches_ rest = .ok a' →
    LoopInv σ a0 a' s F tε ws fw []
  | [], b, a', li, _, h => by
    unfold makeDetLoop at h; cases h; exact li
  | t :: rest, b, a', li, hnd, h => by
    unfold makeDetLoop at h
    split at h
    · cases h
    · rename_i b1 tgt hsp
      split at h
      · cases h
      · rename_i b2 hcp
        split at h
        · cases h
        · rename_i b3 hm
          rw [List.nodup_cons] at hnd
          obtain ⟨X, c, he, _⟩ := li.todo t List.mem_cons_self
          have pre : RoundPre b s F tε t X c fw := ⟨li.inv, he, li.edge_ε, li.wtF⟩
          have su := splitU_of_splitTarget pre hsp
          have rs := roundSpec_of pre su hcp hm
          exact makeDetLoop_inv rest (li.step hnd.1 pre rs) hnd.2 h

theorem failNextState_ok {a : Automaton K P} {s : Nat} {r : Option Nat}
    (h : a.failNextState s = .ok r) :
    ∃ w, a.g.weight? s = some w ∧ ((r = none ∧ w.eorder = []) ∨
      ∃ tε e, w.eorder = [tε] ∧ a.g.edge? tε = some e ∧ r = some e.dst) := by
  unfold failNextState at h
  split at h
  · cases h
  · rename_i heo
    obtain ⟨w, hw, hnil⟩ := eorderOf_ok_iff.1 heo
    cases h
    exact ⟨w, hw, .inl ⟨rfl, hnil.symm⟩⟩
  · rename_i tε heo
    obtain ⟨w, hw, hnil⟩ := eorderOf_ok_iff.1 heo
    cases hn : a.nextState tε with
    | error e => rw [hn] at h; cases h
    | ok d =>
      rw [hn] at h; cases h
      obtain ⟨e, he, hd⟩ := nextState_ok_iff.1 hn
      exact ⟨w, hw, .inr ⟨tε, e, hnil.symm, he, by rw [hd]⟩⟩
  · cases h

/-- `make_det(s)` preserves the structural invariant, the root, the root-is-a-source invariant,
the language of the root and the determinisation invariant. (The guard on the constraint
children of `s` inside `makeDetWith` replaces the former hypothesis `NonDetChildren`.) -/
theorem makeDet_spec [DecidableEq K] [DecidableEq P] {σ : Constraint K P → Bool}
    {a a' : Automaton K P} {s : Nat}
    (inv : Inv a) (rs : RootSrc a) (dok : DetOKE σ a) (h : a.makeDet s = .ok a') :
    Inv a' ∧ a'.root = a.root ∧ RootSrc a' ∧
    (∀ pid, AccND σ a' a'.root pid ↔ AccND σ a a.root pid) ∧ DetOKE σ a' := by
  unfold makeDet makeDetWith at h
  split at h
  · cases h
  · rename_i a0 wd hsd
    obtain ⟨w, rfl, r⟩ := setDeterministic_reflag inv hsd
    split at h
    · rename_i hdet
      cases h
      exact r.final inv rs dok (r.detAt_of_wasDet inv dok hdet)
    · split at h
      · cases h
      · rename_i hfn
        cases h
        obtain ⟨w0, hw0, hr | ⟨_, _, _, _, hr⟩⟩ := failNextState_ok hfn
        · rw [r.wt0] at hw0; cases hw0
          exact r.final inv rs dok (r.detAt_of_noEps hr.2)
        · cases hr
      · rename_i F hfn
        obtain ⟨ws, hws, hr | ⟨tε, eε, hε, heε, hr⟩⟩ := failNextState_ok hfn
        · cases hr.1
        · cases hr
          split at h
          · rename_i failTs cts fw hft hcts hfw
            obtain ⟨fw', hfw', rfl⟩ := allTransitions_ok_iff.1 hft
            obtain ⟨ws', hws', rfl⟩ := corderOf_ok_iff.1 hcts
            rw [state_ok_iff] at hfw
            rw [hfw] at hfw'; cases hfw'
            rw [hws] at hws'; cases hws'
            rw [if_pos rfl] at h
            dsimp only at h
            split at h
            · cases h
            · rename_i hcd
              -- the fallback transition
              have hε' : a0.g.edge? tε = some ⟨s, eε.dst, none⟩ := by
                obtain ⟨e, he, hsrc, hnone⟩ :=
                  r.inv.ok.eorder_edge s ws hws tε (by rw [hε]; exact List.mem_singleton.2 rfl)
                rw [heε] at he; cases he
                rw [heε]
                cases eε with
                | mk src dst wt =>
                  simp only at hsrc
                  subst hsrc
                  cases wt with
                  | none => rfl
                  | some _ => cases hnone
              have li : LoopInv σ a0 a0 s eε.dst tε ws fw ws.corder := by
                refine ⟨r.inv, rfl, hws, hfw, hε', fun t ht => ?_, fun t ht hn => absurd ht hn,
                  r.rootSrc rs, fun _ => Iff.rfl, r.detEx inv dok⟩
                obtain ⟨e, he, hsrc, hsome⟩ := r.inv.ok.corder_edge s ws hws t ht
                obtain ⟨c, hc⟩ := Option.isSome_iff_exists.1 hsome
                refine ⟨e.dst, c, ?_, ?_⟩
                · rw [he]
                  cases e
                  simp only at hsrc hc
                  subst hsrc hc
                  rfl
                · rintro ⟨wx, hwx, hdx⟩
                  apply hcd
                  rw [List.any_eq_true]
                  exact ⟨t, ht, by simp only [he, hwx, hdx]⟩
              have hnd : ws.corder.Nodup := (List.nodup_append.1 (r.inv.ok.nodup s ws hws)).1
              have li' := makeDetLoop_inv _ li hnd h
              exact ⟨li'.inv, li'.root.trans r.root, li'.rootSrc,
                fun pid => (li'.rootLang pid).trans (by rw [r.root]; exact r.acc_iff inv _ pid),
                detOKE_of_ex_at li'.detEx (li'.detAt hε)⟩
          · cases h
          · cases h
          · cases h

end Main

end Automaton
end Pm
