/-
Proofs/C08PGSingle.lean — C08 (totality) of the baseline `SinglePatternMatcher` for port graphs.
* `singleLoop_only` (any domain): if `retain_keys` of the requested keys cannot panic and the
  constraints evaluate without panicking, the FIFO loop of `get_all_bindings` returns `.ok` or one
  of its two fuel errors — for EVERY fuel.
* `pg_single_only`: for every arity-correct port-graph constraint vector (single- or multi-root),
  every host value and every fuel, `singleMatches pgDomain` returns `.ok` or a fuel error; in
  particular it never panics.
* `pg_single_terminates`: for every such vector and host some fuel suffices, and then every larger
  fuel does (no explicit bound: `missing_bindings` on `root i` needs fuel growing with `i`).
Everything lives in `namespace Pm.C08PG`.
-/
import PmVerif.Proofs.C08PGRun
import PmVerif.Proofs.C08Total1
import PmVerif.Proofs.BaselineDom
import PmVerif.Proofs.PGProgScopes
import PmVerif.Props.C12
namespace Pm
namespace C08PG
open Automaton C08

section Generic
variable {K V P H M : Type} [DecidableEq K]

/-- The two fuel errors of the baseline. -/
def SingleFuel (e : Err) : Prop := e = .fuel "get_all_bindings" ∨ e = .fuel "all_missing_bindings"

/-- **The FIFO loop of `get_all_bindings` never panics**, whatever the fuel, if `retain_keys` of
the requested keys and the evaluation of the queued constraints cannot. -/
theorem singleLoop_only {D : Domain K V P H M} {h : H} {requested : List K} {mbFuel : Nat}
    (hret : ∀ m, (D.map.retain m requested).isSome = true) (Qc : Constraint K P → Prop)
    (hs : ∀ c, Qc c → ∀ m, (satOrFalse D.map.get D.check c h m).isSome = true) :
    ∀ (fuel : Nat) (queue : List (List (Constraint K P) × M)) (out : List M),
      (∀ x ∈ queue, ∀ c ∈ x.1, Qc c) →
      Only SingleFuel (singleLoop D h requested mbFuel fuel queue out) := by
  intro fuel
  induction fuel with
  | zero =>
    intro queue out _
    cases queue with
    | nil => unfold singleLoop; exact Only.ok _ _
    | cons x q => unfold singleLoop; exact Only.err (.inl rfl)
  | succ fuel ih =>
    intro queue out hq
    match queue, hq with
    | [], _ => unfold singleLoop; exact Only.ok _ _
    | ([], m) :: q, hq =>
      have hq' : ∀ x ∈ q, ∀ c ∈ x.1, Qc c := fun x hx => hq x (List.mem_cons_of_mem _ hx)
      unfold singleLoop
      obtain ⟨m', hm'⟩ := Option.isSome_iff_exists.1 (hret m)
      rw [hm']
      simp only
      split
      · exact ih q _ hq'
      · exact ih q _ hq'
    | (c :: rest, m) :: q, hq =>
      have hq' : ∀ x ∈ q, ∀ c ∈ x.1, Qc c := fun x hx => hq x (List.mem_cons_of_mem _ hx)
      have hc : Qc c := hq _ List.mem_cons_self c List.mem_cons_self
      have hrest : ∀ c' ∈ rest, Qc c' := fun c' hc' =>
        hq _ List.mem_cons_self c' (List.mem_cons_of_mem _ hc')
      unfold singleLoop
      cases hk : allMissingBindings D.req c.args [] mbFuel with
      | none => exact Only.err (.inr rfl)
      | some keys =>
        simp only
        generalize hfold : List.foldr _ (Except.ok []) (bindAll D.map D.opts h m keys false) = r
        obtain ⟨kept, rfl⟩ := C08.foldr_sat_total _ (fun m' : M =>
            satOrFalse D.map.get D.check c h m') (fun m' => m')
            (fun x rest hp => by simp only [hp]) (fun x rest hp => by simp only [hp]) _
            (fun m' _ => hs c hc m') hfold
        simp only
        apply ih
        intro x hx
        rcases List.mem_append.1 hx with hx | hx
        · exact hq' x hx
        · obtain ⟨m', _, rfl⟩ := List.mem_map.1 hx
          exact hrest

/-- **The baseline never panics**: `.ok` or a fuel error, for every fuel. -/
theorem singleMatches_only {D : Domain K V P H M} {h : H} (cs : List (Constraint K P))
    (hret : ∀ m ks, (D.map.retain m ks).isSome = true)
    (hs : ∀ c ∈ cs, ∀ m, (satOrFalse D.map.get D.check c h m).isSome = true) (fuel : Nat) :
    Only SingleFuel (singleMatches D cs h fuel) := by
  unfold singleMatches
  cases hq : requestedBindings D cs fuel with
  | none => exact Only.err (.inr rfl)
  | some requested =>
    simp only
    apply singleLoop_only (fun m => hret m requested) (fun c => c ∈ cs) hs
    intro x hx c hc
    rw [List.mem_singleton] at hx
    subst hx
    exact hc

/-- **The baseline terminates**: on an acyclic indexing scheme, if `retain_keys` and the
evaluation of the constraints cannot panic, some fuel suffices — and then every larger one. -/
theorem singleMatches_terminates {D : Domain K V P H M} {h : H} (cs : List (Constraint K P))
    (hacy : RankAcyclic D.req)
    (hret : ∀ m ks, (D.map.retain m ks).isSome = true)
    (hs : ∀ c ∈ cs, ∀ m, (satOrFalse D.map.get D.check c h m).isSome = true) :
    ∃ fuel0 out, ∀ fuel, fuel0 ≤ fuel → singleMatches D cs h fuel = .ok out := by
  -- fuel for every `all_missing_bindings` call of the loop
  have hmb : ∃ f1, ∀ c ∈ cs, ∃ keys, allMissingBindings D.req c.args [] f1 = some keys := by
    clear hs
    induction cs with
    | nil => exact ⟨0, fun c hc => by cases hc⟩
    | cons c cs ih =>
      obtain ⟨f1, h1⟩ := ih
      obtain ⟨f2, keys, h2, _⟩ := c12_all D.req hacy c.args []
      refine ⟨max f1 f2, fun c' hc' => ?_⟩
      rcases List.mem_cons.1 hc' with rfl | hc'
      · exact ⟨keys, Baseline.allMissingLoop_fuel_mono D.req f2 _ (Nat.le_max_right _ _) _ _ _ _ h2⟩
      · obtain ⟨keys', hk'⟩ := h1 c' hc'
        exact ⟨keys', Baseline.allMissingLoop_fuel_mono D.req f1 _ (Nat.le_max_left _ _) _ _ _ _
          hk'⟩
  -- fuel for `requested_bindings`
  obtain ⟨f0, requested, hreq, _⟩ := c12_all D.req hacy (cs.flatMap (·.args)) []
  obtain ⟨f1, h1⟩ := hmb
  -- the retained results
  have hrs : ∀ A : List M, ∃ rs : List M,
      A.map (fun m => D.map.retain m requested) = rs.map some := by
    intro A
    induction A with
    | nil => exact ⟨[], rfl⟩
    | cons m A ih =>
      obtain ⟨rs, hrs⟩ := ih
      obtain ⟨m', hm'⟩ := Option.isSome_iff_exists.1 (hret m requested)
      exact ⟨m' :: rs, by simp only [List.map_cons, hm', hrs]⟩
  obtain ⟨rs, hrs⟩ := hrs (singleLevels D h f1 cs [D.map.empty])
  have hloop := singleLoop_total (D := D) (h := h) (requested := requested) (mbFuel := f1) cs
    [D.map.empty] rs (levelWork D h f1 cs [D.map.empty]) [] h1
    (fun c hc m hn => by
      have := hs c hc m
      rw [hn] at this
      cases this) hrs (Nat.le_refl _)
  refine ⟨max f0 (max f1 (levelWork D h f1 cs [D.map.empty])),
    [] ++ rs.filter (fun m' => requested.all fun k => (D.map.get m' k).isSome), fun fuel hf => ?_⟩
  unfold singleMatches
  have hreq' : requestedBindings D cs fuel = some requested :=
    Baseline.allMissingLoop_fuel_mono D.req f0 fuel (by omega) _ _ _ _ hreq
  rw [hreq']
  simp only
  exact singleLoop_fuel_mono (mb := f1) (mb' := fuel) (by omega) _ fuel _ _ _ (by omega) hloop

end Generic

/-! ### port graphs -/

theorem pg_sat_isSome (h : PortGraph) {c : PGCons} (hc : c.args.length = c.pred.arity)
    (m : PGMap) : (satOrFalse pgDomain.map.get pgDomain.check c h m).isSome = true := by
  apply satOrFalse_isSome
  intro vs hvs
  exact tpg_check_total c.pred h vs (hvs.trans hc)

/-- **Port graphs: the baseline never panics**, for every arity-correct constraint vector
(multi-root vectors included), every host value and every fuel. -/
theorem pg_single_only (cs : List PGCons) (har : ∀ c ∈ cs, c.args.length = c.pred.arity)
    (h : PortGraph) (fuel : Nat) : Only SingleFuel (singleMatches pgDomain cs h fuel) :=
  singleMatches_only cs (fun _ _ => rfl) (fun c hc m => pg_sat_isSome h (har c hc) m) fuel

/-- **Port graphs: the baseline terminates**, for every arity-correct constraint vector and every
host value. -/
theorem pg_single_terminates (cs : List PGCons) (har : ∀ c ∈ cs, c.args.length = c.pred.arity)
    (h : PortGraph) :
    ∃ fuel0 out, ∀ fuel, fuel0 ≤ fuel → singleMatches pgDomain cs h fuel = .ok out :=
  singleMatches_terminates cs PGProg.pgReq_acyclic (fun _ _ => rfl)
    (fun c hc m => pg_sat_isSome h (har c hc) m)

end C08PG
end Pm
