/-
Proofs/C09EpsDet.lean — C09 clause (c) under c1E: `make_det(s)` creates no epsilon transition when
no child of `s` has one (`ChildEF a s`, Proofs/C09EpsCore.lean): the loop copies the transitions of
the fallback state `F` onto (private copies of) the constraint children `X` of `s`, and a private
copy made by `split_target` copies the transitions of `X`; `F` and `X` are children of `s`.
`NoNewEps a a'`: every epsilon transition of `a'` is an epsilon transition of `a` with the same id
and source — so `E1All` is inherited. Built on the structural round description `RoundSpec` of
Proofs/BuildDet.lean. Everything lives in `namespace Pm.C09E`.
-/
import PmVerif.Proofs.C09EpsCore
import PmVerif.Proofs.BuildDet
namespace Pm
namespace C09E
open Automaton
variable {K P : Type}

/-- Every epsilon transition of `a'` is an epsilon transition of `a` (same id, same source). -/
def NoNewEps (a a' : Automaton K P) : Prop :=
  ∀ t e, a'.g.edge? t = some e → e.w = none →
    ∃ e0, a.g.edge? t = some e0 ∧ e0.src = e.src ∧ e0.w = none

theorem NoNewEps.refl (a : Automaton K P) : NoNewEps a a :=
  fun _ e he hn => ⟨e, he, rfl, hn⟩

theorem NoNewEps.trans {a a1 a2 : Automaton K P} (h1 : NoNewEps a a1) (h2 : NoNewEps a1 a2) :
    NoNewEps a a2 := by
  intro t e he hn
  obtain ⟨e1, he1, hs1, hn1⟩ := h2 t e he hn
  obtain ⟨e0, he0, hs0, hn0⟩ := h1 t e1 he1 hn1
  exact ⟨e0, he0, hs0.trans hs1, hn0⟩

theorem NoNewEps.of_edges {a a' : Automaton K P} (h : ∀ t e, a'.g.edge? t = some e → e.w = none →
    a.g.edge? t = some e) : NoNewEps a a' :=
  fun t e he hn => ⟨e, h t e he hn, rfl, hn⟩

theorem NoNewEps.e1 {a a' : Automaton K P} (h : NoNewEps a a') {x : Nat} (hx : E1 a x) :
    E1 a' x := by
  intro t1 t2 e1 e2 h1 h2 hs1 hs2 hn1 hn2
  obtain ⟨f1, hf1, hsf1, hnf1⟩ := h t1 e1 h1 hn1
  obtain ⟨f2, hf2, hsf2, hnf2⟩ := h t2 e2 h2 hn2
  exact hx t1 t2 f1 f2 hf1 hf2 (hsf1.trans hs1) (hsf2.trans hs2) hnf1 hnf2

theorem NoNewEps.e1All {a a' : Automaton K P} (h : NoNewEps a a') (E : E1All a) : E1All a' :=
  fun x => h.e1 (E x)

/-! ### one round -/

section Round
variable {b b' : Automaton K P} {s F t X tgt : Nat} {c : Constraint K P}

/-- One round of `makeDetLoop` creates no epsilon transition when neither the fallback state nor
the constraint child has one. -/
theorem round_eps_old (rs : RoundSpec b b' s F t X tgt c) (hX : EF b X) (hF : EF b F) :
    ∀ x e, b'.g.edge? x = some e → e.w = none → b.g.edge? x = some e := by
  intro x e hx hn
  rcases rs.new x e hx with h | h | ⟨_, _, x0, h | h⟩
  · subst h
    rw [rs.edge_t] at hx
    cases hx
    cases hn
  · exact h
  · exact absurd hn (hX x0 ⟨X, e.dst, e.w⟩ h rfl)
  · exact absurd hn (hF x0 ⟨F, e.dst, e.w⟩ h rfl)

theorem ef_of_eps_old {y : Nat}
    (h : ∀ x e, b'.g.edge? x = some e → e.w = none → b.g.edge? x = some e) (hy : EF b y) :
    EF b' y :=
  fun x e hx hsrc hn => hy x e (h x e hx hn) hsrc hn

end Round

/-! ### the loop -/

/-- Invariant of `makeDetLoop` started in `a0`: `rest` are the constraint transitions of `s` still
to process; their targets and the fallback state `F` have no epsilon transition. -/
structure DL (a0 b : Automaton K P) (s F tε : Nat) (fw : AState K) (rest : List Nat) : Prop where
  inv : Inv b
  wtF : b.g.weight? F = some fw
  edge_ε : b.g.edge? tε = some ⟨s, F, none⟩
  todo : ∀ t ∈ rest, ∃ X c, b.g.edge? t = some ⟨s, X, some c⟩ ∧ EF b X
  efF : EF b F
  nne : NoNewEps a0 b

theorem makeDetLoop_dl {a0 : Automaton K P} {s F tε : Nat} {fw : AState K} :
    ∀ (rest : List Nat) {b a' : Automaton K P},
    DL a0 b s F tε fw rest → rest.Nodup →
    b.makeDetLoop (fw.corder ++ fw.eorder) fw.matches_ rest = .ok a' →
    DL a0 a' s F tε fw []
  | [], b, a', li, _, h => by
    unfold makeDetLoop at h; cases h; exact li
  | t :: rest, b, a', li, hnd, h => by
    unfold makeDetLoop at h
    split at h
    · cases h
    · rename_i b1 tgt hsp
      split at h
      · cases h
      · rename_i b2 hcp
        split at h
        · cases h
        · rename_i b3 hm
          rw [List.nodup_cons] at hnd
          obtain ⟨X, c, he, hX⟩ := li.todo t List.mem_cons_self
          have pre : RoundPre b s F tε t X c fw := ⟨li.inv, he, li.edge_ε, li.wtF⟩
          have su := splitU_of_splitTarget pre hsp
          have rs := roundSpec_of pre su hcp hm
          have hold := round_eps_old rs hX li.efF
          refine makeDetLoop_dl rest ⟨rs.inv, (rs.wt_ne F (Ne.symm rs.neF)).trans li.wtF,
            rs.old tε _ pre.tε_ne_t pre.edge_ε, fun t' ht' => ?_, ef_of_eps_old hold li.efF,
            li.nne.trans (NoNewEps.of_edges hold)⟩ hnd.2 h
          have hne : t' ≠ t := fun hx => hnd.1 (hx ▸ ht')
          obtain ⟨X', c', he', hX'⟩ := li.todo t' (List.mem_cons_of_mem _ ht')
          exact ⟨X', c', rs.old t' _ hne he', ef_of_eps_old hold hX'⟩

/-! ### `makeDet` -/

section Main
variable [DecidableEq K] [DecidableEq P]
set_option linter.unusedSectionVars false

/-- **`make_det(s)` creates no epsilon transition when no child of `s` has one.** -/
theorem makeDet_noNewEps {a a' : Automaton K P} {s : Nat} (inv : Inv a) (hc : ChildEF a s)
    (h : a.makeDet s = .ok a') : Inv a' ∧ NoNewEps a a' := by
  unfold makeDet makeDetWith at h
  split at h
  · cases h
  · rename_i a0 wd hsd
    obtain ⟨w, rfl, r⟩ := setDeterministic_reflag inv hsd
    have hn0 : NoNewEps a a0 := NoNewEps.of_edges fun t e he _ => by rw [← r.edge]; exact he
    have hc0 : ChildEF a0 s := by
      intro t e he hsrc t' e' he' hsrc' hn'
      rw [r.edge] at he he'
      exact hc t e he hsrc t' e' he' hsrc' hn'
    split at h
    · cases h; exact ⟨r.inv, hn0⟩
    · split at h
      · cases h
      · cases h; exact ⟨r.inv, hn0⟩
      · rename_i F hfn
        obtain ⟨ws, hws, hr | ⟨tε, eε, hε, heε, hr⟩⟩ := Automaton.failNextState_ok hfn
        · cases hr.1
        · cases hr
          split at h
          · rename_i failTs cts fw hft hcts hfw
            obtain ⟨fw', hfw', rfl⟩ := allTransitions_ok_iff.1 hft
            obtain ⟨ws', hws', rfl⟩ := corderOf_ok_iff.1 hcts
            rw [state_ok_iff] at hfw
            rw [hfw] at hfw'; cases hfw'
            rw [hws] at hws'; cases hws'
            rw [if_pos rfl] at h
            dsimp only at h
            split at h
            · cases h
            · -- the fallback transition
              have hε' : a0.g.edge? tε = some ⟨s, eε.dst, none⟩ := by
                obtain ⟨e, he, hsrc, hnone⟩ :=
                  r.inv.ok.eorder_edge s ws hws tε (by rw [hε]; exact List.mem_singleton.2 rfl)
                rw [heε] at he; cases he
                rw [heε]
                cases eε with
                | mk src dst wt =>
                  simp only at hsrc
                  subst hsrc
                  cases wt with
                  | none => rfl
                  | some _ => cases hnone
              have li : DL a0 a0 s eε.dst tε fw ws.corder := by
                refine ⟨r.inv, hfw, hε', fun t ht => ?_, hc0 tε ⟨s, eε.dst, none⟩ hε' rfl, NoNewEps.refl a0⟩
                obtain ⟨e, he, hsrc, hsome⟩ := r.inv.ok.corder_edge s ws hws t ht
                obtain ⟨c, hc'⟩ := Option.isSome_iff_exists.1 hsome
                refine ⟨e.dst, c, ?_, hc0 t e he hsrc⟩
                rw [he]
                cases e
                simp only at hsrc hc'
                subst hsrc hc'
                rfl
              have hnd : ws.corder.Nodup := (List.nodup_append.1 (r.inv.ok.nodup s ws hws)).1
              have li' := makeDetLoop_dl _ li hnd h
              exact ⟨li'.inv, hn0.trans li'.nne⟩
          · cases h
          · cases h
          · cases h

end Main

end C09E
end Pm
