/-
Model/Toposort.lean — stage TOPO: `OnlineToposort` (src/utils/toposort.rs) over the
`StableGraph` model. The refill scan iterates the `visited` hash set; its order is the explicit
argument `scan` (choice point c1).
-/
import PmVerif.Model.Graph
namespace Pm

structure Topo where
  visited : List Nat
  /-- `to_visit_next`; the top of the stack is the *last* element (Rust `Vec::pop`). -/
  stack : List Nat
  deriving Repr, DecidableEq

namespace Topo
variable {N E : Type}

def new (root : Nat) : Topo := ⟨[], [root]⟩
def fromIter (roots : List Nat) : Topo := ⟨[], roots⟩

/-- `node_is_ready`: every current predecessor is visited (vacant node: no predecessors). -/
def isReady (g : SGraph N E) (visited : List Nat) (n : Nat) : Bool :=
  (g.preds n).all fun p => visited.contains p

/-- The `while self.to_visit_next.is_empty()` refill: walk the visited nodes in `scan` order;
the first one with ready, unqueued, unvisited successors refills the stack (`unique()` keeps
first occurrences). `none` = the scan is exhausted (`all_visited.next()?`). -/
def refill (g : SGraph N E) (t : Topo) : List Nat → Option (List Nat)
  | [] => none
  | v :: scan =>
    let ready := dedup ((g.succs v).filter fun n =>
      isReady g t.visited n && !(t.visited.contains n))
    if ready.isEmpty then refill g t scan else some ready

/-- `OnlineToposort::next`. `scan` is the iteration order of `visited` at the time of the call
(it is re-created on each pass of the outer loop, in the same order since the set is not
modified in between). One unit of fuel per outer-loop pass. -/
def next (g : SGraph N E) (scan : List Nat) : Nat → Topo → Option (Option Nat × Topo)
  | 0, _ => none
  | fuel + 1, t =>
    let filled : Option Topo :=
      if t.stack.isEmpty then
        match refill g t scan with
        | none => none
        | some ready => some { t with stack := ready }
      else some t
    match filled with
    | none => some (none, t)
    | some t =>
      match t.stack.getLast? with
      | none => none  -- unreachable: the stack was just refilled
      | some n =>
        let t := { t with stack := t.stack.dropLast }
        if g.containsNode n && isReady g t.visited n then
          some (some n, { t with visited := t.visited ++ [n] })
        else next g scan fuel t

end Topo
end Pm
