/-
Model/TableDom.lean — the harness-defined *table domain* (DESIGN §3.4), mirrored from
harness/src/table.rs: keys and values are small naturals, prerequisites and offered values
come from tables, predicates are a small fixed family.
-/
import PmVerif.Model.Tree
namespace Pm

abbrev TScheme := List (List Nat)

def TScheme.req (s : TScheme) (k : Nat) : List Nat := s.getD k []

structure TRule where
  cond : Option (Nat × Nat)
  vals : List Nat
  deriving Repr, DecidableEq

structure THost where
  strict : Bool
  rules : List (List TRule)
  deriving Repr, DecidableEq

abbrev TMap := List (Nat × Nat)

def tMap : MapOps Nat Nat TMap := assocMap

/-- `THost::list_bind_options`. -/
def THost.opts (s : TScheme) (h : THost) (k : Nat) (m : TMap) : List Nat :=
  if h.strict && (s.req k).any (fun r => (alGet m r).isNone) then []
  else
    (h.rules.getD k []).flatMap fun r =>
      match r.cond with
      | none => r.vals
      | some (ck, cv) => if alGet m ck = some cv then r.vals else []

inductive TPred where
  | eq
  | ne
  | const (c : Nat)
  | true_ (n : Nat)
  | lt
  | notIn (n : Nat)
  deriving Repr, DecidableEq

def TPred.arity : TPred → Nat
  | .eq | .ne | .lt => 2
  | .const _ => 1
  | .true_ n => n
  | .notIn n => n + 1

/-- `TPred::check`; `none` = the `panic!("tpred arity")` branch. -/
def TPred.check : TPred → THost → List Nat → Option Bool
  | .eq, _, [a, b] => some (a == b)
  | .ne, _, [a, b] => some (a != b)
  | .lt, _, [a, b] => some (decide (a < b))
  | .const c, _, [a] => some (a == c)
  | .true_ n, _, vs => if vs.length = n then some true else none
  | .notIn n, _, v :: vs => if vs.length = n then some (!vs.contains v) else none
  | _, _, _ => none

end Pm

/-! ### Constraint-tree strategies of the table domain (mirror of harness/src/table.rs) -/
namespace Pm
open CTree

abbrev TCons := Constraint Nat TPred

/-- Rust's derived `Ord` on `TPred`: variant index, then payload. -/
def TPred.code : TPred → Nat × Nat
  | .eq => (0, 0)
  | .ne => (1, 0)
  | .const c => (2, c)
  | .true_ n => (3, n)
  | .lt => (4, 0)
  | .notIn n => (5, n)

def natListLe : List Nat → List Nat → Bool
  | [], _ => true
  | _ :: _, [] => false
  | a :: as, b :: bs => if a < b then true else if a = b then natListLe as bs else false

/-- `tcons_key(a) <= tcons_key(b)`: (largest argument, predicate, arguments). -/
def tconsLe (a b : TCons) : Bool :=
  let ma := a.args.foldl max 0
  let mb := b.args.foldl max 0
  if ma < mb then true else if ma > mb then false
  else
    let ca := a.pred.code
    let cb := b.pred.code
    if ca.1 < cb.1 then true else if ca.1 > cb.1 then false
    else if ca.2 < cb.2 then true else if ca.2 > cb.2 then false
    else natListLe a.args b.args

def tconsMutex (a b : TCons) : Bool :=
  match a.pred, b.pred with
  | .const x, .const y => x != y && a.args == b.args
  | _, _ => false

/-- Insert into a sorted duplicate-free list (a `BTreeSet`). -/
def insertSet (x : Nat) : List Nat → List Nat
  | [] => [x]
  | y :: ys => if x < y then x :: y :: ys else if x = y then y :: ys else y :: insertSet x ys

/-- `<TPred as ConditionedPredicate>::conditioned`. -/
def tCond (c : TCons) (satisfied : List TCons) : Option TCons :=
  match c.pred with
  | .true_ _ => none
  | .notIn _ =>
    match c.args with
    | [] => some c   -- unreachable for arity-correct constraints
    | first :: others =>
      let keys := others.foldl (fun s k => insertSet k s) []
      let removed := satisfied.foldl (fun (ks : List Nat) s =>
        match s.pred, s.args with
        | .notIn _, f :: os => if f = first then ks.filter (fun k => !os.contains k) else ks
        | _, _ => ks) keys
      if removed.isEmpty then none
      else some ⟨.notIn removed.length, first :: removed⟩
  | _ => some c

/-- `<TPred as ToConstraintsTree>::to_constraints_tree` under strategy `s`. -/
def tTree (s : Nat) (cs : List TCons) (fuel : Nat) : Option (CTree TCons) :=
  if cs.isEmpty then some CTree.new
  else
    let sorted := sortWithIndices tconsLe cs
    match s with
    | 0 => some (withChildren ((sorted.take 1).map fun ci => (ci.1, [ci.2])))
    | 1 => some (withTransitiveMutex sorted tconsMutex)
    | 2 => some (withPairwiseMutex sorted tconsMutex)
    | _ => withPowerset tCond (sorted.take 4) fuel

/-- Strategy 4: trivially true constraints label the root only; the others form a
transitive-mutex tree with a deterministic root (exhibits finding F4). -/
def tTreeRoot (cs : List TCons) : CTree TCons :=
  if cs.isEmpty then CTree.new
  else
    let sorted := sortWithIndices tconsLe cs
    let isTrue := fun (ci : TCons × Nat) => match ci.1.pred with | .true_ _ => true | _ => false
    let trues := sorted.filter isTrue
    let rest := sorted.filter fun ci => !isTrue ci
    let t := { withTransitiveMutex rest tconsMutex with makeDet := true }
    trues.foldl (fun t ci => t.addLabel 0 ci.2) t

/-- Strategy 5: only the smallest constraint, but `Ne(a, b)` is decomposed into the two mutually
exclusive pieces `Lt(a, b)` and `Lt(b, a)`, BOTH labelled with the index of the `Ne` constraint —
a contract-conforming tree in which one constraint index labels several sibling nodes (the builder
then creates two differently labelled transitions to the same child state). -/
def tTreeSplit (cs : List TCons) : CTree TCons :=
  match sortWithIndices tconsLe cs with
  | [] => CTree.new
  | (c, i) :: _ =>
    match c.pred, c.args with
    | .ne, [a, b] => withChildren [(⟨.lt, [a, b]⟩, [i]), (⟨.lt, [b, a]⟩, [i])]
    | _, _ => withChildren [(c, [i])]

/-- All strategies of the table domain. -/
def tTreeAll (s : Nat) (cs : List TCons) (fuel : Nat) : Option (CTree TCons) :=
  if s ≤ 3 then tTree s cs fuel else if s = 4 then some (tTreeRoot cs) else some (tTreeSplit cs)

end Pm
