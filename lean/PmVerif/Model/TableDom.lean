/-
Model/TableDom.lean — the harness-defined *table domain* (DESIGN §3.4), mirrored from
harness/src/table.rs: keys and values are small naturals, prerequisites and offered values
come from tables, predicates are a small fixed family.
-/
import PmVerif.Model.Constraint
namespace Pm

abbrev TScheme := List (List Nat)

def TScheme.req (s : TScheme) (k : Nat) : List Nat := s.getD k []

structure TRule where
  cond : Option (Nat × Nat)
  vals : List Nat
  deriving Repr, DecidableEq

structure THost where
  strict : Bool
  rules : List (List TRule)
  deriving Repr, DecidableEq

abbrev TMap := List (Nat × Nat)

def tMap : MapOps Nat Nat TMap := assocMap

/-- `THost::list_bind_options`. -/
def THost.opts (s : TScheme) (h : THost) (k : Nat) (m : TMap) : List Nat :=
  if h.strict && (s.req k).any (fun r => (alGet m r).isNone) then []
  else
    (h.rules.getD k []).flatMap fun r =>
      match r.cond with
      | none => r.vals
      | some (ck, cv) => if alGet m ck = some cv then r.vals else []

inductive TPred where
  | eq
  | ne
  | const (c : Nat)
  | true_ (n : Nat)
  | lt
  deriving Repr, DecidableEq

def TPred.arity : TPred → Nat
  | .eq | .ne | .lt => 2
  | .const _ => 1
  | .true_ n => n

/-- `TPred::check`; `none` = the `panic!("tpred arity")` branch. -/
def TPred.check : TPred → THost → List Nat → Option Bool
  | .eq, _, [a, b] => some (a == b)
  | .ne, _, [a, b] => some (a != b)
  | .lt, _, [a, b] => some (decide (a < b))
  | .const c, _, [a] => some (a == c)
  | .true_ n, _, vs => if vs.length = n then some true else none
  | _, _, _ => none

end Pm
