/-
Model/Parse.lean — stage PARSE: the parsing / rendering glue of the string and matrix domains.

  src/string/pattern.rs   `StringPattern::parse_str`, `Debug for StringPattern`,
                          `Display`/`Debug for CharVar`
  src/matrix/pattern.rs   `MatrixPattern::parse_str`, `parse_row`, `Debug for MatrixPattern`
  src/matrix.rs           `impl From<S: AsRef<str>> for MatrixString`, `Debug for MatrixString`
  core::str               `str::lines` (= `split_inclusive('\n')`, then strip one `'\n'` and, only
                          if a `'\n'` was stripped, one `'\r'`), `char::is_whitespace`

Characters are code points (`Nat`), as everywhere in the model. `none` = the `unwrap()` panic of
the `'$'` arm when the character iterator is exhausted. Nothing here defaults a missing value.
-/
import PmVerif.Model.MatrixDom
namespace Pm

/-! ### code points with a meaning for the parsers -/
def chDollar : Nat := 36   -- '$'
def chDash : Nat := 45     -- '-'
def chLF : Nat := 10       -- '\n'
def chCR : Nat := 13       -- '\r'
def chQuote : Nat := 34    -- '"'

/-- `char::is_whitespace`: the Unicode `White_Space` property. -/
def isWhitespace (c : Nat) : Bool :=
  (0x09 ≤ c && c ≤ 0x0D) || c == 0x20 || c == 0x85 || c == 0xA0 || c == 0x1680 ||
  (0x2000 ≤ c && c ≤ 0x200A) || c == 0x2028 || c == 0x2029 || c == 0x202F || c == 0x205F ||
  c == 0x3000

/-! ### strings -/

/-- `StringPattern::parse_str`. `'$'` takes the next character, whatever it is, as a variable
name; `none` = `char_iter.next().unwrap()` on an exhausted iterator. -/
def parseStr : List Nat → Option (List CharVar)
  | [] => some []
  | c :: cs =>
    if c = 36 then
      match cs with
      | [] => none
      | d :: cs' => (parseStr cs').map (CharVar.var d :: ·)
    else (parseStr cs).map (CharVar.lit c :: ·)

/-- `Display`/`Debug for CharVar`: `{}` of the character, preceded by `'$'` for a variable. The
character is written raw (no escaping). -/
def showCharVar : CharVar → List Nat
  | .lit c => [c]
  | .var c => [36, c]

/-- What `Debug for StringPattern` writes between the quotes. -/
def strBody (p : List CharVar) : List Nat := p.flatMap showCharVar

/-- `Debug for StringPattern`, quotes included. -/
def showStrPattern (p : List CharVar) : List Nat := 34 :: (strBody p ++ [34])

/-! ### `str::lines` -/

/-- `str::lines`. A `'\n'` ends a line; a `'\r'` immediately before that `'\n'` is dropped with
it; text after the last `'\n'` is a line if it is non-empty, and keeps a final `'\r'`; a lone
`'\r'` is an ordinary character. -/
def linesOf : List Nat → List (List Nat)
  | [] => []
  | c :: cs =>
    if c = 10 then [] :: linesOf cs
    else if c = 13 ∧ cs.head? = some 10 then linesOf cs
    else
      match linesOf cs with
      | [] => [[c]]
      | l :: ls => (c :: l) :: ls

/-- `str::split_inclusive('\n')`: pieces keep their terminator; no empty last piece. -/
def splitInclusiveLF : List Nat → List (List Nat)
  | [] => []
  | c :: cs =>
    if c = 10 then [10] :: splitInclusiveLF cs
    else
      match splitInclusiveLF cs with
      | [] => [[c]]
      | l :: ls => (c :: l) :: ls

/-- `strip_suffix(c)`. -/
def stripSuffixChar (c : Nat) (l : List Nat) : Option (List Nat) :=
  if l.getLast? = some c then some l.dropLast else none

/-- The closure `LinesMap` of core: strip `'\n'`, and then — only then — `'\r'`. -/
def linesMap (l : List Nat) : List Nat :=
  match stripSuffixChar 10 l with
  | none => l
  | some l1 =>
    match stripSuffixChar 13 l1 with
    | none => l1
    | some l2 => l2

/-- `str::lines` written the way core writes it; `Props/Parse` proves it equal to `linesOf`. -/
def linesOfCore (s : List Nat) : List (List Nat) := (splitInclusiveLF s).map linesMap

/-! ### matrices -/

/-- The `iter::from_fn` loop of `parse_row`, on the already filtered characters. -/
def parseCells : List Nat → Option (List (Option CharVar))
  | [] => some []
  | c :: cs =>
    if c = 36 then
      match cs with
      | [] => none
      | d :: cs' => (parseCells cs').map (some (CharVar.var d) :: ·)
    else if c = 45 then (parseCells cs).map (none :: ·)
    else (parseCells cs).map (some (CharVar.lit c) :: ·)

/-- `MatrixPattern::parse_row`: whitespace is removed first (so `"$ a"` is the variable `a`). -/
def parseRow (row : List Nat) : Option (List (Option CharVar)) :=
  parseCells (row.filter (fun c => !isWhitespace c))

/-- `lines.map(parse_row).collect()`: a panic in any row is a panic of the whole parse. -/
def parseRows : List (List Nat) → Option MatPattern
  | [] => some []
  | l :: ls =>
    match parseRow l with
    | none => none
    | some r => (parseRows ls).map (r :: ·)

/-- `MatrixPattern::parse_str`. -/
def parseMat (s : List Nat) : Option MatPattern := parseRows (linesOf s)

/-- `MatrixString::from`. -/
def matHostOfStr (s : List Nat) : MatHost := linesOf s

def showCell : Option CharVar → List Nat
  | none => [45]
  | some cv => showCharVar cv

def showRow (row : List (Option CharVar)) : List Nat := row.flatMap showCell

/-- The lines `Debug for MatrixPattern` writes between the two `"""` lines (each row followed
by `'\n'`). -/
def matBody (p : MatPattern) : List Nat := p.flatMap fun row => showRow row ++ [10]

/-- `Debug for MatrixPattern`: `"""\n`, the rows, `"""\n`. -/
def showMatPattern (p : MatPattern) : List Nat :=
  [34, 34, 34, 10] ++ matBody p ++ [34, 34, 34, 10]

/-- `Debug for MatrixString`: every row followed by `'\n'`. -/
def showMatHost (h : MatHost) : List Nat := h.flatMap fun row => row ++ [10]

/-- Lines joined by a single `'\n'` (no terminator after the last one). -/
def joinLF : List (List Nat) → List Nat
  | [] => []
  | [l] => l
  | l :: l' :: ls => l ++ 10 :: joinLF (l' :: ls)

end Pm
