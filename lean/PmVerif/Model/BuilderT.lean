/-
Model/BuilderT.lean — the event replay of `finish_with_det_heuristic` WITH the discipline the
Rust loop imposes on the events it can log (additions only; `Model/Builder.lean` is unchanged):

* c1T — `Topo s` comes from `OnlineToposort::next`: a state is emitted at most once and only
  when all its current predecessors have been emitted (properties `c15_once`,
  `c15_after_preds` of the toposort model; ids of emitted states stay in `visited` for ever).
* c1C — the loop runs until the toposort is exhausted: when the log ends, every live state has
  been emitted (a truncated log is not a log of the Rust loop).
* c4T — `Merge(node, set)` comes from `find_mergeable_nodes(node)`: every member of the set is
  `node` itself or another parent of `node`'s first child (`all_transitions(node).next()`).

`Automaton.build` accepts ANY `Topo` sequence of live states and any same-tuple, path-free merge
set; that is enough for the set-level theorems (T-BUILD, C01–C06) but not for multiplicities
(C07): re-emitting a state lets `fuseGroup` clone an already determinised child into a
non-deterministic one (`Props/C07Str.lean`, counterexample). `buildT` is `build` restricted to
disciplined logs: `buildT … = .ok a → build … = .ok a`, so every theorem about `build` applies.
The lenient variant `buildTL` (no `make_det` guard) is what the driver replays; a real log that
violated c1T or c4T would show up there as a replay disagreement.
-/
import PmVerif.Model.Builder
namespace Pm
namespace Automaton
variable {K P : Type} [DecidableEq K] [DecidableEq P]

/-- c1T: `s` was not emitted before and all its current predecessors were. -/
def topoAdmissible (a : Automaton K P) (emitted : List Nat) (s : Nat) : Bool :=
  !emitted.contains s && (a.g.preds s).all emitted.contains

/-- The candidate set of `find_mergeable_nodes(node)`: the parents of `node`'s first child. -/
def siblingsOf (a : Automaton K P) (node : Nat) : List Nat :=
  match a.allTransitions node with
  | .ok (t :: _) =>
    match a.nextState t with
    | .ok c => a.g.preds c
    | .error _ => []
  | _ => []

/-- c4T: every member of the merge set is the node or one of its siblings. -/
def mergeAdmissible (a : Automaton K P) (node : Nat) (nodes : List Nat) : Bool :=
  nodes.all fun n => n == node || (a.siblingsOf node).contains n

def mergesLoggedT (a : Automaton K P) : List Ev → R (Automaton K P × List Ev)
  | .merge n nodes :: evs =>
    if !a.mergeAdmissible n nodes then
      .error (.guard "c4T: merge set member is not a sibling of the node")
    else
      match a.doMerge n nodes with
      | .error e => .error e
      | .ok a => mergesLoggedT a evs
  | evs => .ok (a, evs)

/-- `iteration` with the `make_det` variant as a parameter and disciplined merges. -/
def iterationWith (det : Automaton K P → Nat → R (Automaton K P))
    (toTree : List (Cons K P) → Option (CTree (Cons K P))) (fuel : Nat)
    (a : Automaton K P) (s : Nat) (evs : List Ev) : R (Automaton K P × List Ev) :=
  if !a.g.containsNode s then .error (.guard "c1: emitted state does not exist") else
  match a.makeConstraintsUnique s evs with
  | .error e => .error e
  | .ok (a, evs) =>
    match insertConstraintTree toTree a s fuel with
    | .error e => .error e
    | .ok (a, treeDet) =>
      match a.makeConstraintsUnique s evs with
      | .error e => .error e
      | .ok (a, evs) =>
        let afterDet : R (Automaton K P × List Ev) :=
          if treeDet then
            match evs with
            | .detAsk s' :: .detYes s'' :: evs' =>
              if s' = s ∧ s'' = s then (det a s).map (·, evs')
              else .error (.guard "c5: DetAsk/DetYes for another state")
            | .detAsk s' :: evs' =>
              if s' = s then .ok (a, evs') else .error (.guard "c5: DetAsk for another state")
            | _ => .error (.guard "c5: missing DetAsk event")
          else .ok (a, evs)
        match afterDet with
        | .error e => .error e
        | .ok (a, evs) =>
          match a.mergesLoggedT evs with
          | .error e => .error e
          | .ok (a, .iterEnd s' :: evs) =>
            if s' = s then .ok (a, evs) else .error (.guard "IterEnd for another state")
          | .ok _ => .error (.guard "missing IterEnd event")

/-- The main loop with the toposort discipline: `emitted` lists the states emitted so far;
at the end of the log every live state must have been emitted (c1C). -/
def mainLoopWith (det : Automaton K P → Nat → R (Automaton K P))
    (toTree : List (Cons K P) → Option (CTree (Cons K P))) (fuel : Nat) :
    Nat → Automaton K P → List Nat → List Ev → R (Automaton K P)
  | _, a, emitted, [] =>
    if a.g.nodeIndices.all emitted.contains then .ok a
    else .error (.guard "c1C: the log ends although a live state was never emitted")
  | 0, _, _, _ :: _ => .error (.fuel "main loop")
  | n + 1, a, emitted, .topo s :: evs =>
    if !a.topoAdmissible emitted s then
      .error (.guard "c1T: state emitted twice or before one of its predecessors")
    else
      match iterationWith det toTree fuel a s evs with
      | .error e => .error e
      | .ok (a, evs) => mainLoopWith det toTree fuel n a (s :: emitted) evs
  | _, _, _, _ :: _ => .error (.guard "expected a Topo event")

def finishWith (det : Automaton K P → Nat → R (Automaton K P))
    (toTree : List (Cons K P) → Option (CTree (Cons K P))) (req : K → List K)
    (fuel : Nat) (a : Automaton K P) (evs : List Ev) : R (Automaton K P) :=
  match mainLoopWith det toTree fuel evs.length a [] evs with
  | .error e => .error e
  | .ok a => populateScopes req fuel a

/-- The disciplined guarded build (what the multiplicity theorems are about). -/
def buildT (toTree : List (Cons K P) → Option (CTree (Cons K P))) (req : K → List K)
    (fuel : Nat) (patterns : List (Nat × List (Cons K P) × List K)) (evs : List Ev) :
    R (Automaton K P) :=
  match addPatterns req fuel new patterns with
  | .error e => .error e
  | .ok a => finishWith makeDet toTree req fuel a evs

/-- The disciplined build exactly as the Rust code runs it (no `make_det` guard). -/
def buildTL (toTree : List (Cons K P) → Option (CTree (Cons K P))) (req : K → List K)
    (fuel : Nat) (patterns : List (Nat × List (Cons K P) × List K)) (evs : List Ev) :
    R (Automaton K P) :=
  match addPatterns req fuel new patterns with
  | .error e => .error e
  | .ok a => finishWith makeDetL toTree req fuel a evs

end Automaton
end Pm

/-! ### the strict replay: no deterministic child at emission (c1D)

Multiplicities (C07) need one more fact: `fuseGroup` at `s` never absorbs a deterministic child
(the clone would be non-deterministic and follow both a constraint child and the fallback).
The Rust loop does NOT guarantee it: a deterministic clone made by `split_target`, or a merge
survivor, can be the child of a state that is emitted later (≈ 0.03 % of real string builds,
0.1–0.2 % in the other domains; it subsumes the `make_det` guard of `build`). `buildTD` is
`buildT` restricted to logs on which it never happens; the driver evaluates it on every real
log and treats a build on which c1D fails as *outside* the theorems: flagged, still replayed
exactly with `buildTL`, and searched for a failing host. -/

namespace Pm
namespace Automaton
variable {K P : Type} [DecidableEq K] [DecidableEq P]

/-- c1D: no current child of `s` is deterministic. -/
def noDetChild (a : Automaton K P) (s : Nat) : Bool :=
  (a.g.succs s).all fun c => match a.g.weight? c with | some w => !w.det | none => true

def mainLoopD (det : Automaton K P → Nat → R (Automaton K P))
    (toTree : List (Cons K P) → Option (CTree (Cons K P))) (fuel : Nat) :
    Nat → Automaton K P → List Nat → List Ev → R (Automaton K P)
  | _, a, emitted, [] =>
    if a.g.nodeIndices.all emitted.contains then .ok a
    else .error (.guard "c1C: the log ends although a live state was never emitted")
  | 0, _, _, _ :: _ => .error (.fuel "main loop")
  | n + 1, a, emitted, .topo s :: evs =>
    if !a.topoAdmissible emitted s then
      .error (.guard "c1T: state emitted twice or before one of its predecessors")
    else if !a.noDetChild s then
      .error (.guard "c1D: a child of the emitted state is already deterministic")
    else
      match iterationWith det toTree fuel a s evs with
      | .error e => .error e
      | .ok (a, evs) => mainLoopD det toTree fuel n a (s :: emitted) evs
  | _, _, _, _ :: _ => .error (.guard "expected a Topo event")

def finishD (det : Automaton K P → Nat → R (Automaton K P))
    (toTree : List (Cons K P) → Option (CTree (Cons K P))) (req : K → List K)
    (fuel : Nat) (a : Automaton K P) (evs : List Ev) : R (Automaton K P) :=
  match mainLoopD det toTree fuel evs.length a [] evs with
  | .error e => .error e
  | .ok a => populateScopes req fuel a

/-- The strict disciplined build (`buildTD … = .ok a → buildT … = .ok a`). -/
def buildTD (toTree : List (Cons K P) → Option (CTree (Cons K P))) (req : K → List K)
    (fuel : Nat) (patterns : List (Nat × List (Cons K P) × List K)) (evs : List Ev) :
    R (Automaton K P) :=
  match addPatterns req fuel new patterns with
  | .error e => .error e
  | .ok a => finishD makeDet toTree req fuel a evs

end Automaton
end Pm

/-! ### the strict replay with epsilon-free emission (c1E), for the flat decompositions

c1E: when a state is emitted, neither it nor any of its current children has a fallback
(epsilon) transition yet. NOT a fact of the generic loop (it fails on real table-domain logs:
a fuse/split clone of an already processed child is emitted later with an inherited epsilon),
but it held on every real string, matrix and port-graph log examined; under it "at most one
fallback transition per state" is an invariant of every step. `buildTE` = `buildTD` + c1E. -/

namespace Pm
namespace Automaton
variable {K P : Type} [DecidableEq K] [DecidableEq P]

def epsFreeAt (a : Automaton K P) (s : Nat) : Bool :=
  let eo := fun x => match a.g.weight? x with | some w => w.eorder.isEmpty | none => true
  eo s && (a.g.succs s).all eo

def mainLoopE (det : Automaton K P → Nat → R (Automaton K P))
    (toTree : List (Cons K P) → Option (CTree (Cons K P))) (fuel : Nat) :
    Nat → Automaton K P → List Nat → List Ev → R (Automaton K P)
  | _, a, emitted, [] =>
    if a.g.nodeIndices.all emitted.contains then .ok a
    else .error (.guard "c1C: the log ends although a live state was never emitted")
  | 0, _, _, _ :: _ => .error (.fuel "main loop")
  | n + 1, a, emitted, .topo s :: evs =>
    if !a.topoAdmissible emitted s then
      .error (.guard "c1T: state emitted twice or before one of its predecessors")
    else if !a.noDetChild s then
      .error (.guard "c1D: a child of the emitted state is already deterministic")
    else if !a.epsFreeAt s then
      .error (.guard "c1E: the emitted state or one of its children already has a fallback transition")
    else
      match iterationWith det toTree fuel a s evs with
      | .error e => .error e
      | .ok (a, evs) => mainLoopE det toTree fuel n a (s :: emitted) evs
  | _, _, _, _ :: _ => .error (.guard "expected a Topo event")

def finishE (det : Automaton K P → Nat → R (Automaton K P))
    (toTree : List (Cons K P) → Option (CTree (Cons K P))) (req : K → List K)
    (fuel : Nat) (a : Automaton K P) (evs : List Ev) : R (Automaton K P) :=
  match mainLoopE det toTree fuel evs.length a [] evs with
  | .error e => .error e
  | .ok a => populateScopes req fuel a

/-- The strict, epsilon-free-emission build (`buildTE … = .ok a → buildTD … = .ok a`). -/
def buildTE (toTree : List (Cons K P) → Option (CTree (Cons K P))) (req : K → List K)
    (fuel : Nat) (patterns : List (Nat × List (Cons K P) × List K)) (evs : List Ev) :
    R (Automaton K P) :=
  match addPatterns req fuel new patterns with
  | .error e => .error e
  | .ok a => finishE makeDet toTree req fuel a evs

end Automaton
end Pm
