/-
Model/PortGraph.lean — stage PG-G: an abstract model of `portgraph::PortGraph` (external crate,
modelled not verified; DESIGN Appendix A): node slots with input/output port counts and a
symmetric partial link relation between an output port and an input port.
-/
import PmVerif.Model.Tree
namespace Pm

inductive PDir where
  | inc | out
  deriving Repr, DecidableEq

/-- `PortOffset`. -/
structure POff where
  dir : PDir
  idx : Nat
  deriving Repr, DecidableEq

/-- Rust's derived `Ord` on `PortOffset`: `Incoming(_) < Outgoing(_)`, then by index. -/
def POff.lt (a b : POff) : Bool :=
  match a.dir, b.dir with
  | .inc, .out => true
  | .out, .inc => false
  | _, _ => decide (a.idx < b.idx)

def POff.le (a b : POff) : Bool := a == b || a.lt b

def POff.opposite (p : POff) : POff :=
  match p.dir with
  | .inc => ⟨.out, p.idx⟩
  | .out => ⟨.inc, p.idx⟩

/-- A port: node index and offset. -/
abbrev Port := Nat × POff

structure PGNode where
  nin : Nat
  nout : Nat
  deriving Repr, DecidableEq

structure PortGraph where
  nodes : List (Option PGNode)
  /-- links as (output port, input port) -/
  links : List (Port × Port)
  deriving Repr, DecidableEq

namespace PortGraph

def node? (g : PortGraph) (n : Nat) : Option PGNode := (g.nodes[n]?).join

/-- `nodes_iter()`: live nodes, ascending. -/
def nodesIter (g : PortGraph) : List Nat :=
  (List.range g.nodes.length).filter fun n => (g.node? n).isSome

/-- `port_index(n, off).is_some()`. -/
def portExists (g : PortGraph) (p : Port) : Bool :=
  match g.node? p.1 with
  | none => false
  | some nd => match p.2.dir with
    | .inc => decide (p.2.idx < nd.nin)
    | .out => decide (p.2.idx < nd.nout)

/-- `port_link(p)`. -/
def portLink (g : PortGraph) (p : Port) : Option Port :=
  match g.links.find? fun l => l.1 = p ∨ l.2 = p with
  | none => none
  | some l => if l.1 = p then some l.2 else some l.1

/-- `all_port_offsets(n)`: inputs ascending, then outputs ascending. -/
def allPortOffsets (g : PortGraph) (n : Nat) : List POff :=
  match g.node? n with
  | none => []
  | some nd => (List.range nd.nin).map (⟨.inc, ·⟩) ++ (List.range nd.nout).map (⟨.out, ·⟩)

def allPorts (g : PortGraph) (n : Nat) : List Port := (g.allPortOffsets n).map fun o => (n, o)

/-- `all_links(n)`: for each linked port of `n` in port order, `(port, other end)`, skipping links
whose other end is one of `n`'s own output ports (a self-loop is listed once). -/
def allLinks (g : PortGraph) (n : Nat) : List (Port × Port) :=
  (g.allPorts n).filterMap fun p =>
    match g.portLink p with
    | none => none
    | some q => if q.1 = n ∧ q.2.dir = .out then none else some (p, q)

/-- `edge_count()` through the petgraph adaptor: the number of links. -/
def edgeCount (g : PortGraph) : Nat := g.links.length

end PortGraph

/-! ### keys, predicates -/

/-- `PGIndexKey`. -/
inductive PGKey where
  | root (i : Nat)
  | along (root : Nat) (port : POff) (len : Nat)
  deriving Repr, DecidableEq

/-- `PGIndexKey::cmp_key`, compared lexicographically: `(root, Option<PortOffset>, length)`. -/
def PGKey.lt (a b : PGKey) : Bool :=
  let ka : Nat × Option POff × Nat := match a with
    | .root i => (i, none, 0) | .along r p l => (r, some p, l)
  let kb : Nat × Option POff × Nat := match b with
    | .root i => (i, none, 0) | .along r p l => (r, some p, l)
  if ka.1 < kb.1 then true else if ka.1 > kb.1 then false
  else
    let optLt : Option POff → Option POff → Bool
      | none, some _ => true
      | some x, some y => x.lt y
      | _, _ => false
    if optLt ka.2.1 kb.2.1 then true else if optLt kb.2.1 ka.2.1 then false
    else decide (ka.2.2 < kb.2.2)

/-- `PGPredicate<()>`. -/
inductive PGPred where
  | hasNodeWeight
  | isConnected (left right : POff)
  | isNotEqual (nOther : Nat)
  deriving Repr, DecidableEq

def PGPred.arity : PGPred → Nat
  | .hasNodeWeight => 1
  | .isConnected .. => 2
  | .isNotEqual n => n + 1

/-- Derived `Ord` on `PGPredicate`: variant, then fields. -/
def PGPred.lt (a b : PGPred) : Bool :=
  match a, b with
  | .hasNodeWeight, .hasNodeWeight => false
  | .hasNodeWeight, _ => true
  | .isConnected .., .hasNodeWeight => false
  | .isConnected l r, .isConnected l' r' => l.lt l' || (l == l' && r.lt r')
  | .isConnected .., .isNotEqual _ => true
  | .isNotEqual n, .isNotEqual n' => decide (n < n')
  | .isNotEqual _, _ => false

abbrev PGCons := Constraint PGKey PGPred

/-- `has_edge` + `PGPredicate::is_satisfied` with unit weights; `none` = the `panic!` on a wrong
number of arguments. -/
def pgCheck : PGPred → PortGraph → List Nat → Option Bool
  | .hasNodeWeight, _, [_] => some true
  | .isConnected l r, g, [a, b] =>
    some (g.portExists (a, l) && g.portLink (a, l) == some (b, r))
  | .isNotEqual _, _, v :: vs => some (!vs.contains v)
  | _, _, _ => none

end Pm
