/-
Model/Automaton.lean — stages MOD/VIEW: `ConstraintAutomaton`, `State`, `Transition`
(src/automaton.rs), the views (src/automaton/view.rs) and the primitive edits
(src/automaton/builder/modify.rs) over the `StableGraph` model.
-/
import PmVerif.Model.Graph
import PmVerif.Model.Indexing
import PmVerif.Model.Constraint
namespace Pm

/-- `State<K>`. `matches_` is `HashMap<PatternID, Vec<K>>` as an association list in insertion
order (its iteration order is a choice point, c4/c7). -/
structure AState (K : Type) where
  matches_ : List (Nat × List K) := []
  det : Bool := false
  corder : List Nat := []
  eorder : List Nat := []
  scope : List K := []
  deriving Repr, DecidableEq

/-- `ConstraintAutomaton<K, P, I>` (the indexing scheme is passed separately as `req`). -/
structure Automaton (K P : Type) where
  g : SGraph (AState K) (Option (Constraint K P))
  root : Nat
  deriving Repr

namespace Automaton
variable {K P : Type}

/-- `ConstraintAutomaton::with_indexing_scheme`: one root state. -/
def new : Automaton K P :=
  let (g, r) := (SGraph.empty : SGraph (AState K) (Option (Constraint K P))).addNode {}
  ⟨g, r⟩

/-! ### views -/

/-- `node_weight(state)`, `expect("unknown state")`. -/
def state (a : Automaton K P) (s : Nat) : R (AState K) :=
  match a.g.weight? s with
  | some w => .ok w
  | none => .error (.panic "unknown state")

def corderOf (a : Automaton K P) (s : Nat) : R (List Nat) := (a.state s).map (·.corder)
def eorderOf (a : Automaton K P) (s : Nat) : R (List Nat) := (a.state s).map (·.eorder)

/-- `all_transitions(state)`: constraint transitions, then epsilon transitions. -/
def allTransitions (a : Automaton K P) (s : Nat) : R (List Nat) :=
  (a.state s).map fun w => w.corder ++ w.eorder

/-- `next_state(t)`, `expect("invalid transition")`. -/
def nextState (a : Automaton K P) (t : Nat) : R Nat :=
  match a.g.edge? t with
  | some e => .ok e.dst
  | none => .error (.panic "invalid transition")

/-- `parent(t)`. -/
def parent (a : Automaton K P) (t : Nat) : R Nat :=
  match a.g.edge? t with
  | some e => .ok e.src
  | none => .error (.panic "invalid transition")

/-- `constraint(t)`: `self.graph[t].constraint` (indexing a missing edge panics). -/
def constraintOf (a : Automaton K P) (t : Nat) : R (Option (Constraint K P)) :=
  match a.g.edge? t with
  | some e => .ok e.w
  | none => .error (.panic "graph index: edge")

/-- `incoming_transitions(state)`: in-adjacency order; nothing for a vacant state. -/
def incomingTransitions (a : Automaton K P) (s : Nat) : List Nat := (a.g.inEdges s).map (·.1)

def isUnreachable (a : Automaton K P) (s : Nat) : Bool := (a.incomingTransitions s).isEmpty

/-- `constraints(state)`: `constraint(t).unwrap()` along `constraint_order`. -/
def constraintsAt (a : Automaton K P) (s : Nat) : R (List (Constraint K P)) :=
  match a.corderOf s with
  | .error e => .error e
  | .ok ts => mapR (fun t =>
      match a.constraintOf t with
      | .error e => .error e
      | .ok none => .error (.panic "constraints: unwrap on None")
      | .ok (some c) => .ok c) ts

/-- `fail_next_state(state)`: `assert!(epsilon transitions <= 1)`. -/
def failNextState (a : Automaton K P) (s : Nat) : R (Option Nat) :=
  match a.eorderOf s with
  | .error e => .error e
  | .ok [] => .ok none
  | .ok [t] => (a.nextState t).map some
  | .ok _ => .error (.panic "fail_next_state: more than one epsilon transition")

/-! ### primitive edits -/

def modifyState (a : Automaton K P) (s : Nat) (f : AState K → AState K) : R (Automaton K P) :=
  if a.g.containsNode s then .ok { a with g := a.g.setWeight s f }
  else .error (.panic "invalid state")

def addNonDetNode (a : Automaton K P) : Automaton K P × Nat :=
  let (g, n) := a.g.addNode {}
  ({ a with g := g }, n)

/-- `set_deterministic`: returns whether the state was already deterministic. -/
def setDeterministic (a : Automaton K P) (s : Nat) : R (Automaton K P × Bool) :=
  match a.state s with
  | .error e => .error e
  | .ok w =>
    match a.modifyState s fun w => { w with det := true } with
    | .error e => .error e
    | .ok a' => .ok (a', w.det)

/-- `append_edge(parent, child, constraint)`: nothing for a self transition. -/
def appendEdge (a : Automaton K P) (parent child : Nat) (c : Option (Constraint K P)) :
    R (Automaton K P) :=
  if parent = child then .ok a
  else
    match a.g.addEdge parent child c with
    | .error e => .error e
    | .ok (g, e) =>
      ({ a with g := g }).modifyState parent fun w =>
        if c.isNone then { w with eorder := w.eorder ++ [e] }
        else { w with corder := w.corder ++ [e] }

/-- `add_transition(parent, constraint)`: new non-deterministic child. -/
def addTransition (a : Automaton K P) (parent : Nat) (c : Option (Constraint K P)) :
    R (Automaton K P × Nat) :=
  let (a, child) := a.addNonDetNode
  match a.appendEdge parent child c with
  | .error e => .error e
  | .ok a => .ok (a, child)

/-- `add_match`: first writer wins. -/
def addMatch (a : Automaton K P) (s pid : Nat) (keys : List K) : R (Automaton K P) :=
  match a.state s with
  | .error e => .error e
  | .ok w =>
    if w.matches_.any (fun m => m.1 == pid) then .ok a
    else a.modifyState s fun w => { w with matches_ := w.matches_ ++ [(pid, keys)] }

/-- `remove_order` + `remove_edge`: `remove_transition(t)`; returns the removed weight. -/
def removeTransition (a : Automaton K P) (t : Nat) :
    R (Automaton K P × Option (Constraint K P)) :=
  match a.g.edge? t with
  | none => .error (.panic "invalid transition")
  | some ed =>
    match a.state ed.src with
    | .error e => .error e
    | .ok w =>
      let order := if ed.w.isNone then w.eorder else w.corder
      if !order.contains t then .error (.panic "invalid transition (order)")
      else
        match a.modifyState ed.src fun w =>
            if ed.w.isNone then { w with eorder := w.eorder.erase t }
            else { w with corder := w.corder.erase t } with
        | .error e => .error e
        | .ok a =>
          match a.g.removeEdge t with
          | none => .error (.panic "invalid transition")
          | some (g, ed') => .ok ({ a with g := g }, ed'.w)

/-- `remove_state`. -/
def removeState (a : Automaton K P) (s : Nat) : Automaton K P := { a with g := a.g.removeNode s }

def replaceFirst (xs : List Nat) (old new : Nat) : Option (List Nat) :=
  match xs with
  | [] => none
  | x :: rest => if x = old then some (new :: rest) else (replaceFirst rest old new).map (x :: ·)

/-- `rewire_target(t, new_target)`: remove the edge, add it again towards `new_target` (it gets
the just-freed edge id back), patch the order entry. -/
def rewireTarget (a : Automaton K P) (t newTarget : Nat) : R (Automaton K P × Nat) :=
  match a.g.removeEdge t with
  | none => .error (.panic "invalid transition")
  | some (g, ed) =>
    match g.addEdge ed.src newTarget ed.w with
    | .error e => .error e
    | .ok (g, t') =>
      match (⟨g, a.root⟩ : Automaton K P).state ed.src with
      | .error e => .error e
      | .ok w =>
        -- `replace_order`: first occurrence in constraint_order ++ epsilon_order
        match replaceFirst w.corder t t' with
        | some co =>
          ((⟨g, a.root⟩ : Automaton K P).modifyState ed.src fun w => { w with corder := co }).map
            (·, t')
        | none =>
          match replaceFirst w.eorder t t' with
          | some eo =>
            ((⟨g, a.root⟩ : Automaton K P).modifyState ed.src fun w => { w with eorder := eo }).map
              (·, t')
          | none => .error (.panic "replace_order: unwrap on None")

/-- Append copies of the given transitions of `src` (as `(constraint, target)`) to `dst`. -/
def appendCopies (a : Automaton K P) (dst : Nat) :
    List Nat → R (Automaton K P)
  | [] => .ok a
  | t :: ts =>
    match a.nextState t, a.constraintOf t with
    | .ok target, .ok c =>
      match a.appendEdge dst target c with
      | .error e => .error e
      | .ok a' => appendCopies a' dst ts
    | .error e, _ => .error e
    | _, .error e => .error e

/-- `clone_outgoing(state, other)`. -/
def cloneOutgoing (a : Automaton K P) (s other : Nat) : R (Automaton K P) :=
  match a.allTransitions other with
  | .error e => .error e
  | .ok ts => a.appendCopies s ts

/-- `split_target(t)`: give `t` a private copy of its target unless it is the only incoming
transition. -/
def splitTarget (a : Automaton K P) (t : Nat) : R (Automaton K P × Nat) :=
  match a.nextState t with
  | .error e => .error e
  | .ok s =>
    if (a.incomingTransitions s).all (· = t) then .ok (a, s)
    else
      match a.state s with
      | .error e => .error e
      | .ok w =>
        let (g, n) := a.g.addNode { matches_ := w.matches_, det := w.det }
        match (⟨g, a.root⟩ : Automaton K P).rewireTarget t n with
        | .error e => .error e
        | .ok (a, _) =>
          match a.allTransitions s with
          | .error e => .error e
          | .ok ts => (a.appendCopies n ts).map (·, n)

/-- `move_incoming(state, other)`: re-route every incoming transition of `other` to `state`. -/
def moveIncomingLoop (a : Automaton K P) (s : Nat) : List Nat → R (Automaton K P)
  | [] => .ok a
  | t :: ts =>
    match a.parent t with
    | .error e => .error e
    | .ok src =>
      match a.removeTransition t with
      | .error e => .error e
      | .ok (a, c) =>
        match a.appendEdge src s c with
        | .error e => .error e
        | .ok a => moveIncomingLoop a s ts

def moveIncoming (a : Automaton K P) (s other : Nat) : R (Automaton K P) :=
  a.moveIncomingLoop s (a.incomingTransitions other)

/-- `drain_constraints(state)`: remove every constraint transition, returning
`(constraint, target)` in `constraint_order`. -/
def drainLoop (a : Automaton K P) :
    List Nat → List (Option (Constraint K P) × Nat) → R (Automaton K P × List (Option (Constraint K P) × Nat))
  | [], acc => .ok (a, acc)
  | t :: ts, acc =>
    match a.nextState t with
    | .error e => .error e
    | .ok target =>
      match a.removeTransition t with
      | .error e => .error e
      | .ok (a, c) => drainLoop a ts (acc ++ [(c, target)])

def drainConstraints (a : Automaton K P) (s : Nat) :
    R (Automaton K P × List (Option (Constraint K P) × Nat)) :=
  match a.corderOf s with
  | .error e => .error e
  | .ok ts => a.drainLoop ts []

end Automaton
end Pm
