/-
Model/Tree.lean — stage TREE: `ConstraintTree` (src/constraint_tree.rs), the helper
constructors (src/constraint_tree/build.rs), `sort_with_indices` (src/utils.rs) and the
built-in decompositions (src/string/constraint.rs, src/portgraph/constraint.rs + mutex.rs).
-/
import PmVerif.Model.MatrixDom
namespace Pm

/-- `TreeNode`: labels (`constraint_indices`) and ordered children `(constraint, node index)`. -/
structure TreeNode (C : Type) where
  labels : List Nat
  children : List (C × Nat)
  deriving Repr, DecidableEq

/-- `ConstraintTree`: node array (root = index 0) and the `make_det` flag. -/
structure CTree (C : Type) where
  nodes : List (TreeNode C)
  makeDet : Bool
  deriving Repr, DecidableEq

namespace CTree
variable {C : Type}

def new : CTree C := ⟨[⟨[], []⟩], false⟩

def labelsAt (t : CTree C) (n : Nat) : List Nat := (t.nodes[n]?.map (·.labels)).getD []
def childrenAt (t : CTree C) (n : Nat) : List (C × Nat) := (t.nodes[n]?.map (·.children)).getD []

def modifyNode (t : CTree C) (n : Nat) (f : TreeNode C → TreeNode C) : CTree C :=
  { t with nodes := t.nodes.modify n f }

/-- `add_constraint_index` (indexing an absent node panics in Rust; callers only pass nodes
they obtained from the tree — the model leaves the tree unchanged there). -/
def addLabel (t : CTree C) (n : Nat) (i : Nat) : CTree C :=
  t.modifyNode n fun nd => { nd with labels := nd.labels ++ [i] }

/-- `get_or_add_child`: the existing child with an equal constraint, else a fresh node appended
to the node array. Returns the tree and the child's index. -/
def getOrAddChild [DecidableEq C] (t : CTree C) (n : Nat) (c : C) : CTree C × Nat :=
  match (t.childrenAt n).find? (fun ch => ch.1 = c) with
  | some ch => (t, ch.2)
  | none =>
    let idx := t.nodes.length
    let t' : CTree C := { t with nodes := t.nodes ++ [⟨[], []⟩] }
    (t'.modifyNode n fun nd => { nd with children := nd.children ++ [(c, idx)] }, idx)

/-- `with_children`: depth-one tree; equal constraints share a child. -/
def withChildren [DecidableEq C] (children : List (C × List Nat)) : CTree C :=
  children.foldl (fun t (ch : C × List Nat) =>
    let (t', idx) := t.getOrAddChild 0 ch.1
    ch.2.foldl (fun t i => t.addLabel idx i) t') new

/-- `with_pairwise_mutex`. -/
def withPairwiseMutex [DecidableEq C] (cs : List (C × Nat)) (isMutex : C → C → Bool) : CTree C :=
  let kept := cs.foldl (fun (acc : List (C × List Nat)) (ci : C × Nat) =>
    if acc.all (fun o => isMutex o.1 ci.1) then acc ++ [(ci.1, [ci.2])] else acc) []
  { withChildren kept with makeDet := true }

/-- `with_transitive_mutex`. -/
def withTransitiveMutex [DecidableEq C] (cs : List (C × Nat)) (isMutex : C → C → Bool) : CTree C :=
  match cs with
  | [] => new
  | (first, fi) :: rest =>
    let kept := (rest.filter fun ci => isMutex first ci.1).map fun ci => (ci.1, [ci.2])
    { withChildren ((first, [fi]) :: kept) with makeDet := true }

end CTree

/-- `sort_with_indices`: stable sort (Rust's `sort_by` is stable) of `(value, original index)`
pairs under a `≤` test; modelled as insertion sort inserting after equal elements. -/
def insertSorted {α} (le : α → α → Bool) (x : α × Nat) : List (α × Nat) → List (α × Nat)
  | [] => [x]
  | y :: ys => if le y.1 x.1 then y :: insertSorted le x ys else x :: y :: ys

def sortWithIndices {α} (le : α → α → Bool) (xs : List α) : List (α × Nat) :=
  (xs.zip (List.range xs.length)).foldl (fun acc x => insertSorted le x acc) []

/-! ### `with_powerset` (generic in the conditioning function) -/

structure PQItem (C : Type) where
  next : Nat
  satisfied : List C
  node : Nat

/-- `add_implied_constraints`: skip (and label) constraints whose conditioned form is `None`;
returns the tree, the advanced item and the first non-implied conditioned constraint. -/
def addImplied {C} (cond : C → List C → Option C) (cs : List (C × Nat)) :
    Nat → CTree C → PQItem C → CTree C × PQItem C × Option C
  | 0, t, it => (t, it, none)
  | fuel + 1, t, it =>
    match cs[it.next]? with
    | none => (t, it, none)
    | some (c, ci) =>
      match cond c it.satisfied with
      | some c' => (t, it, some c')
      | none =>
        addImplied cond cs fuel (t.addLabel it.node ci)
          { it with next := it.next + 1, satisfied := it.satisfied ++ [c] }

/-- The `while let Some(item) = queue.pop_front()` loop of `with_powerset`. -/
def powersetLoop {C} [DecidableEq C] (cond : C → List C → Option C) (cs : List (C × Nat)) :
    Nat → List (PQItem C) → CTree C → Option (CTree C)
  | _, [], t => some t
  | 0, _ :: _, _ => none
  | fuel + 1, it :: queue, t =>
    let (t, it, nc) := addImplied cond cs (cs.length + 1) t it
    match nc with
    | none => powersetLoop cond cs fuel queue t
    | some c' =>
      let skip : PQItem C := { it with next := it.next + 1 }
      let (t, child) := t.getOrAddChild it.node c'
      match cs[it.next]? with
      | none => none   -- unreachable: `addImplied` returned a constraint at index `next`
      | some (c, ci) =>
        let t := t.addLabel child ci
        let take : PQItem C := ⟨it.next + 1, it.satisfied ++ [c], child⟩
        powersetLoop cond cs fuel (queue ++ [skip, take]) t

/-- `ConstraintTree::with_powerset`. -/
def withPowerset {C} [DecidableEq C] (cond : C → List C → Option C) (cs : List (C × Nat))
    (fuel : Nat) : Option (CTree C) :=
  if cs.isEmpty then some CTree.new
  else powersetLoop cond cs fuel [⟨0, [], 0⟩] { CTree.new with makeDet := true }

/-! ### `CharacterPredicate::to_constraints_tree` (strings and matrices) -/

/-- Lexicographic `≤` on lists under a key order. -/
def lexLe {K} (lt : K → K → Bool) [DecidableEq K] : List K → List K → Bool
  | [], _ => true
  | _ :: _, [] => false
  | a :: as, b :: bs => if lt a b then true else if a = b then lexLe lt as bs else false

/-- Descending insertion sort (`sort_by(|a, b| a.cmp(b).reverse())`). -/
def sortDesc {K} (lt : K → K → Bool) (xs : List K) : List K :=
  xs.foldl (fun acc x =>
    let (hi, lo) := acc.span (fun y => !lt y x)
    hi ++ x :: lo) []

/-- `Ord for StringConstraint<K>`: compare the argument lists sorted in descending order. -/
def strConsLe {K} [DecidableEq K] (lt : K → K → Bool) (a b : Constraint K CharPred) : Bool :=
  lexLe lt (sortDesc lt a.args) (sortDesc lt b.args)

/-- `CharacterPredicate::to_constraints_tree`; `none` = the `panic!()` on a `ConstVal`
constraint that does not have exactly one argument. -/
def charTree {K} [DecidableEq K] (lt : K → K → Bool) (cs : List (Constraint K CharPred)) :
    Option (CTree (Constraint K CharPred)) :=
  if cs.isEmpty then some { CTree.new with makeDet := true }
  else
    let sorted := sortWithIndices (strConsLe lt) cs
    match sorted with
    | [] => none
    | (first, _) :: _ =>
      match first.pred with
      | .bindingEq =>
        some { CTree.withChildren ((sorted.take 1).map fun ci => (ci.1, [ci.2])) with
                makeDet := false }
      | .constVal _ =>
        match first.args with
        | [k] =>
          let kept := sorted.filter fun ci =>
            (match ci.1.pred with | .constVal _ => true | .bindingEq => false) && ci.1.args = [k]
          some { CTree.withChildren (kept.map fun ci => (ci.1, [ci.2])) with makeDet := true }
        | _ => none

def natLt (a b : Nat) : Bool := decide (a < b)
def mkeyLt (a b : MKey) : Bool := decide (a.1 < b.1) || (decide (a.1 = b.1) && decide (a.2 < b.2))

end Pm
