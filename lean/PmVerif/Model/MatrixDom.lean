/-
Model/MatrixDom.lean — stage MAT: src/matrix.rs and src/matrix/pattern.rs. Keys are signed
(row, col) offsets, values are unsigned host cells, hosts are ragged lists of rows.
-/
import PmVerif.Model.StringDom
namespace Pm

abbrev MKey := Int × Int
abbrev MVal := Nat × Nat
abbrev MatHost := List (List Nat)

def matReq (k : MKey) : List MKey := if k = (0, 0) then [] else [(0, 0)]

def matCell (h : MatHost) (r c : Nat) : Option Nat :=
  match h[r]? with
  | none => none
  | some row => row[c]?

/-- All cells `(row, col)` in row-major order. -/
def matAllCells (h : MatHost) : List MVal :=
  (List.range h.length).flatMap fun r => (List.range (h.getD r []).length).map fun c => (r, c)

/-- `<MatrixString as IndexedData>::list_bind_options`; `none` = the
`assert!(matches!(known_bindings, Unbound))` for the start key fails. -/
def matOptsP (h : MatHost) (k : MKey) (m : MatPos) : Option (List MVal) :=
  if k = (0, 0) then
    match m with
    | .unbound => some (matAllCells h)
    | .bound .. => none
  else
    match m with
    | .unbound => some []
    | .bound sr sc _ _ _ _ =>
      match addSigned sr k.1, addSigned sc k.2 with
      | some r, some c => if (matCell h r c).isSome then some [(r, c)] else some []
      | _, _ => some []

/-- `list_bind_options` with the assertion failure collapsed to "no offer"; `bind_all` only
asks for an unbound key, and the start key is unbound only in the unbound map, so the assertion
is unreachable from the engine (`Props/C08`). -/
def matOpts (h : MatHost) (k : MKey) (m : MatPos) : List MVal :=
  (matOptsP h k m).getD []

/-- `<CharacterPredicate as Predicate<MatrixString>>::check`. -/
def matCheck : CharPred → MatHost → List MVal → Option Bool
  | .bindingEq, h, [(r1, c1), (r2, c2)] =>
    some ((matCell h r1 c1).isSome && matCell h r1 c1 == matCell h r2 c2)
  | .constVal c, h, [(r, col)] => some (matCell h r col == some c)
  | _, _, _ => none

abbrev MatPattern := List (List (Option CharVar))
abbrev MatCons := Constraint MKey CharPred

/-- `MatrixPattern::enumerate`: cells in row-major order, holes skipped. -/
def matEnumerate (p : MatPattern) : List (MKey × CharVar) :=
  ((List.range p.length).zip p).flatMap fun (i, row) =>
    ((List.range row.length).zip row).filterMap fun (j, cv) =>
      match cv with
      | none => none
      | some cv => some (((i : Int), (j : Int)), cv)

/-- `MatrixPattern::try_to_constraint_vec` (after the F2 repair: every variable cell that no
constraint references gets a self-equality; the empty rule last). -/
def matConstraints (p : MatPattern) : List MatCons :=
  let cells := matEnumerate p
  let cs := charVarLoop cells [] []
  let cs := cells.foldl (fun cs (cell : MKey × CharVar) =>
    match cell.2 with
    | .var _ => if cs.any (fun c => c.args.contains cell.1) then cs
                else cs ++ [⟨.bindingEq, [cell.1, cell.1]⟩]
    | .lit _ => cs) cs
  if cs.isEmpty then [⟨.bindingEq, [(0, 0), (0, 0)]⟩] else cs

/-- The pinned (pre-repair) conversion, kept to document finding F2. -/
def matConstraintsOld (p : MatPattern) : List MatCons :=
  let cs := charVarLoop (matEnumerate p) [] []
  if cs.isEmpty then [⟨.bindingEq, [(0, 0), (0, 0)]⟩] else cs

end Pm
