/-
Model/BindMap.lean — stage MAP: the four `BindMap` implementations
(src/indexing.rs HashMap/BTreeMap; src/string.rs StringPositionMap; src/matrix.rs
MatrixPositionMap) and the trait's default `retain_keys`.
-/
import PmVerif.Model.Indexing
namespace Pm

/-! ### Generic maps (`FxHashMap<K,V>`, `BTreeMap<K,V>`): association lists -/

section Assoc
variable {K V : Type} [DecidableEq K] [DecidableEq V]

def alGet : List (K × V) → K → Option V
  | [], _ => none
  | (k', v) :: rest, k => if k' = k then some v else alGet rest k

/-- `bind`: reject a second, different value; `insert` otherwise (re-inserting an equal value
leaves the map as it is). -/
def alBind (m : List (K × V)) (k : K) (v : V) : Except BindErr (List (K × V)) :=
  match alGet m k with
  | some v' => if v' = v then .ok m else .error .variableExists
  | none => .ok (m ++ [(k, v)])

/-- `HashMap::retain(|key, _| keys.contains(key))`. Never panics. -/
def alRetain (m : List (K × V)) (ks : List K) : List (K × V) :=
  m.filter (fun kv => kv.1 ∈ ks)

def assocMap : MapOps K V (List (K × V)) where
  empty := []
  get := alGet
  bind := alBind
  retain := fun m ks => some (alRetain m ks)

end Assoc

/-- The trait's default `retain_keys`: start from `Self::default()` and re-bind, in the
iteration order `order` of the key set, every listed key that is currently bound; `unwrap`
on the bind. `none` models a panic: of that `unwrap`, or of `get` itself (`getP` returns `none`
when the real `get` panics — only the matrix map's `checked_add_signed(..).unwrap()` can). -/
def retainDefault {K V M : Type} (getP : M → K → Option (Option V))
    (bind : M → K → V → Except BindErr M) (m : M) : List K → M → Option M
  | [], acc => some acc
  | k :: ks, acc =>
    match getP m k with
    | none => none
    | some none => retainDefault getP bind m ks acc
    | some (some v) =>
      match bind acc k v with
      | .error _ => none
      | .ok acc' => retainDefault getP bind m ks acc'

/-! ### `StringPositionMap` -/

inductive StrPos where
  | unbound
  | bound (start len : Nat)
  deriving Repr, DecidableEq, Inhabited

def StrPos.get : StrPos → Nat → Option Nat
  | .unbound, _ => none
  | .bound start len, k => if k < len then some (start + k) else none

def StrPos.bind : StrPos → Nat → Nat → Except BindErr StrPos
  | .unbound, k, v => if k = 0 then .ok (.bound v 1) else .error .invalidKey
  | .bound start len, k, _ =>
    if k = 0 then .error .variableExists else .ok (.bound start (max len (k + 1)))

def strPosMap : MapOps Nat Nat StrPos where
  empty := .unbound
  get := StrPos.get
  bind := StrPos.bind
  retain := fun m ks => retainDefault (fun m k => some (StrPos.get m k)) StrPos.bind m ks .unbound

/-! ### `MatrixPositionMap` -/

inductive MatPos where
  | unbound
  | bound (sr sc : Nat) (minr minc maxr maxc : Int)
  deriving Repr, DecidableEq, Inhabited

/-- `usize::checked_add_signed`. -/
def addSigned (a : Nat) (d : Int) : Option Nat :=
  let r : Int := (a : Int) + d
  if r < 0 then none else some r.toNat

/-- `get`; the outer `Option` is `none` when one of the two `checked_add_signed(..).unwrap()`
calls panics. -/
def MatPos.getP : MatPos → Int × Int → Option (Option (Nat × Nat))
  | .unbound, _ => some none
  | .bound sr sc minr minc maxr maxc, (kr, kc) =>
    if kr ≥ minr ∧ kr ≤ maxr ∧ kc ≥ minc ∧ kc ≤ maxc then
      match addSigned sr kr, addSigned sc kc with
      | some r, some c => some (some (r, c))
      | _, _ => none
    else some none

/-- `get` with the panic collapsed into "unbound" — only used where a separate statement
(`c14_get_no_panic`) shows the panic branch is unreachable. -/
def MatPos.get (m : MatPos) (k : Int × Int) : Option (Nat × Nat) :=
  match m.getP k with
  | some r => r
  | none => none

def MatPos.bind : MatPos → Int × Int → Nat × Nat → Except BindErr MatPos
  | .unbound, (kr, kc), (vr, vc) =>
    if kr = 0 ∧ kc = 0 then .ok (.bound vr vc 0 0 0 0) else .error .invalidKey
  | .bound sr sc minr minc maxr maxc, (kr, kc), _ =>
    if kr = 0 ∧ kc = 0 then .error .variableExists
    else .ok (.bound sr sc (min minr kr) (min minc kc) (max maxr kr) (max maxc kc))

def matPosMap : MapOps (Int × Int) (Nat × Nat) MatPos where
  empty := .unbound
  get := MatPos.get
  bind := MatPos.bind
  retain := fun m ks => retainDefault MatPos.getP MatPos.bind m ks .unbound

end Pm
