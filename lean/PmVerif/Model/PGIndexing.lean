/-
Model/PGIndexing.lean — stage PG-IDX: src/portgraph/indexing.rs (`required_bindings`,
`list_bind_options`, `walk_path`) and src/portgraph/root_candidates.rs
(`find_root_candidates`, `RootSpanningTree`, `free_ports`). Bindings are association lists
`PGKey ↦ node` (the generic hash map).
-/
import PmVerif.Model.PortGraph
namespace Pm

abbrev PGMap := List (PGKey × Nat)

/-- `PGIndexingScheme::required_bindings`. -/
def pgReq : PGKey → List PGKey
  | .root 0 => []
  | .root (i + 1) => [.root i]
  | .along r _ _ => [.root r]

/-- `walk_path(graph, start, start_offset)` as a list of `(incoming port, node, outgoing port)`;
fuel = an upper bound on the number of steps (the walk never repeats a port before it returns to
`start`, so `number of ports + 1` suffices). -/
def walkPathFrom (g : PortGraph) (start : Nat) :
    Nat → Option Port → List (Option Port × Nat × Option Port)
  | 0, _ => []
  | _, none => []
  | fuel + 1, some nextPort =>
    match g.portLink nextPort with
    | none => []
    | some prev =>
      let curr := prev.1
      if curr = start then []
      else
        let np : Port := (curr, prev.2.opposite)
        let next := if g.portExists np then some np else none
        (some prev, curr, next) :: walkPathFrom g start fuel next

def pgWalkFuel (g : PortGraph) : Nat :=
  (g.nodesIter.map fun n => (g.allPortOffsets n).length).sum + 2

def walkPath (g : PortGraph) (start : Nat) (off : POff) : List (Option Port × Nat × Option Port) :=
  let first : Option Port := if g.portExists (start, off) then some (start, off) else none
  (none, start, first) :: walkPathFrom g start (pgWalkFuel g) first

def walkPathNodes (g : PortGraph) (start : Nat) (off : POff) : List Nat :=
  (walkPath g start off).map (·.2.1)

/-! ### `root_candidates.rs` -/

inductive NeighbourType where
  | parent
  | knownRoot (i : Nat)
  | newRoot (n : Nat)
  deriving Repr, DecidableEq

/-- `free_ports` + `nodes_with_free_ports`: nodes on the traversed paths (roots excluded) that
still have a port not used by the traversed paths. `none` = the `expect` on an unbound path root
panics. -/
def nodesWithFreePorts (g : PortGraph) (m : PGMap) : Option (List Nat) :=
  let roots : List Nat := m.filterMap fun kv => match kv.1 with | .root _ => some kv.2 | _ => none
  -- (root, port) ↦ longest traversed length
  let paths : List ((Nat × POff) × Nat) := m.foldl (fun acc kv =>
    match kv.1 with
    | .along r p l =>
      match acc.find? (fun x => x.1 = (r, p)) with
      | some _ => acc.map fun x => if x.1 = (r, p) then (x.1, max x.2 l) else x
      | none => acc ++ [((r, p), max l 0)]
    | .root _ => acc) []
  let step := fun (acc : Option (List (Nat × List Port))) (pl : (Nat × POff) × Nat) =>
    match acc with
    | none => none
    | some fp =>
      match alGet m (.root pl.1.1) with
      | none => none
      | some rootNode =>
        some (((walkPath g rootNode pl.1.2).take (pl.2 + 1)).foldl (fun fp (x : Option Port × Nat × Option Port) =>
          if roots.contains x.2.1 then fp
          else
            let cur : List Port := match fp.find? (fun e => e.1 = x.2.1) with
              | some e => e.2
              | none => g.allPorts x.2.1
            let cur := match x.1 with | some p => cur.erase p | none => cur
            let cur := match x.2.2 with | some p => cur.erase p | none => cur
            if fp.any (fun e => e.1 = x.2.1) then fp.map fun e => if e.1 = x.2.1 then (e.1, cur) else e
            else fp ++ [(x.2.1, cur)]) fp)
  match paths.foldl step (some []) with
  | none => none
  | some fp => some ((fp.filter fun e => !e.2.isEmpty).map (·.1))

/-- `traverse_path_neighbour_type`; returns the result and the updated `seen_roots`. -/
def traverseNeighbour (g : PortGraph) (node : Nat) (port : POff) (currentRoot : Nat)
    (seen : List Nat) (knownNodes : List Nat) (rootsInv : List (Nat × Nat)) (free : List Nat) :
    Option NeighbourType × List Nat :=
  let rec go : List (Option Port × Nat × Option Port) → List Nat → Option NeighbourType × List Nat × Bool
    | [], path => (none, path, false)
    | (incP, n, _) :: rest, path =>
      if !knownNodes.contains n then (none, path, false)
      else
        match alGet rootsInv n with
        | some root =>
          if root < currentRoot then (some .parent, path, true)
          else if decide (root = currentRoot) &&
              (match incP with
               | none => true                      -- Some(port) > None
               | some p => p.2.lt port) then (some .parent, path, true)
          else if !seen.contains root then (some (.knownRoot root), path, true)
          else (none, path, false)
        | none => go rest (path ++ [n])
  match go ((walkPath g node port).drop 1) [] with
  | (some (.knownRoot r), _, _) => (some (.knownRoot r), seen ++ [r])
  | (some nt, _, _) => (some nt, seen)
  | (none, path, _) => ((path.find? fun n => free.contains n).map .newRoot, seen)

/-- `RootSpanningTree::new` + `find_root_candidates`. The candidate list is in `(root, port)`
order; the Rust code iterates a hash map per root (choice point c9), so lists are compared as
multisets. -/
def findRootCandidates (g : PortGraph) (m : PGMap) : Option (List Nat) :=
  let knownRoots : List Nat :=
    let rec collect (fuel i : Nat) : List Nat :=
      match fuel with
      | 0 => []
      | f + 1 => match alGet m (.root i) with
        | none => []
        | some n => n :: collect f (i + 1)
    collect (m.length + 1) 0
  -- `HashMap::from_iter(known_roots.zip(0..))`: a later index overwrites an earlier one
  let rootsInv : List (Nat × Nat) := (knownRoots.zip (List.range knownRoots.length)).foldl
    (fun acc ni => (acc.filter fun x => x.1 ≠ ni.1) ++ [ni]) []
  let knownNodes := m.map (·.2)
  match nodesWithFreePorts g m with
  | none => none
  | some free =>
    let (trees, _) := (knownRoots.zip (List.range knownRoots.length)).foldl
      (fun (acc : List (List (POff × NeighbourType)) × List Nat) (ni : Nat × Nat) =>
        let seen := if acc.2.contains ni.2 then acc.2 else acc.2 ++ [ni.2]
        let (nbs, seen) := (g.allPortOffsets ni.1).foldl
          (fun (st : List (POff × NeighbourType) × List Nat) port =>
            match traverseNeighbour g ni.1 port ni.2 st.2 knownNodes rootsInv free with
            | (some nt, seen') => (st.1 ++ [(port, nt)], seen')
            | (none, seen') => (st.1, seen')) ([], seen)
        (acc.1 ++ [nbs], seen)) ([], [])
    some (trees.flatMap fun nbs =>
      let used := nbs.filterMap fun x => match x.2 with | .knownRoot _ => some x.1 | _ => none
      let maxUsed : Option POff := used.foldl (fun acc o => match acc with
        | none => some o
        | some a => if a.lt o then some o else some a) none
      nbs.filterMap fun x =>
        let skip := match maxUsed with | none => false | some mx => x.1.le mx
        if skip then none
        else match x.2 with | .newRoot n => some n | _ => none)

/-- `<PortGraph as IndexedData>::list_bind_options`; `none` = `find_root_candidates` panicked. -/
def pgOptsP (g : PortGraph) (k : PGKey) (m : PGMap) : Option (List Nat) :=
  match alGet m k with
  | some v => some [v]
  | none =>
    match k with
    | .root 0 => some g.nodesIter
    | .root (i + 1) =>
      if (alGet m (.root i)).isNone then some [] else findRootCandidates g m
    | .along r port len =>
      match alGet m (.root r) with
      | none => some []
      | some rootNode => some ((walkPathNodes g rootNode port)[len]?).toList

def pgOpts (g : PortGraph) (k : PGKey) (m : PGMap) : List Nat := (pgOptsP g k m).getD []

end Pm
