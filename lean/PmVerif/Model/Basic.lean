/-
Model/Basic.lean — shared vocabulary of the executable model.

Conventions (DESIGN.md §3.1):
* every Rust `unwrap`/`expect`/`assert!`/`panic!` the code can reach is an `Err.panic tag`;
* every `while let`/worklist loop takes a fuel argument and returns `Err.fuel` on exhaustion;
* hash containers are association lists / lists; iteration order is an explicit argument.
No Mathlib imports in `Model/` and `Spec/` (the driver is a compiled `lean_exe`).
-/
namespace Pm

/-- Failure outcomes of the model: a reachable Rust panic (tagged by source location),
fuel exhaustion of a worklist loop, or a model guard (a precondition the Rust code assumes
silently; see DESIGN §3.1 "Guards"). -/
inductive Err where
  | panic (tag : String)
  | fuel  (tag : String)
  | guard (tag : String)
  deriving Repr, DecidableEq, Inhabited

abbrev R (α : Type) := Except Err α

instance : ToString Err where
  toString
    | .panic t => s!"P:{t}"
    | .fuel t  => s!"F:{t}"
    | .guard t => s!"G:{t}"

/-- `xs` without repetitions, keeping first occurrences (models `Itertools::unique`). -/
def dedup {α} [DecidableEq α] : List α → List α
  | [] => []
  | x :: xs => x :: (dedup xs).filter (· ≠ x)

/-- Sequence a list of `Except` computations left to right (structural, proof-friendly). -/
def mapR {α β} (f : α → R β) : List α → R (List β)
  | [] => .ok []
  | x :: xs =>
    match f x with
    | .error e => .error e
    | .ok y =>
      match mapR f xs with
      | .error e => .error e
      | .ok ys => .ok (y :: ys)

/-- Left fold in `Except`. -/
def foldlR {α β} (f : β → α → R β) : β → List α → R β
  | b, [] => .ok b
  | b, x :: xs =>
    match f b x with
    | .error e => .error e
    | .ok b' => foldlR f b' xs

end Pm
