/-
Model/StringDom.lean — stage STR: src/string.rs (indexing scheme, `list_bind_options`),
src/string/pattern.rs (`try_to_constraint_vec`), src/string/predicate.rs (`check`, `arity`).
Characters are code points (`Nat`). A host is its list of characters; `String::len` is the
UTF-8 byte length (`strByteLen`), `chars().nth` indexes characters — the model keeps both.
-/
import PmVerif.Model.Constraint
namespace Pm

inductive CharPred where
  | bindingEq
  | constVal (c : Nat)
  deriving Repr, DecidableEq

def CharPred.arity : CharPred → Nat
  | .bindingEq => 2
  | .constVal _ => 1

/-- UTF-8 encoded length of a code point. -/
def utf8Len (c : Nat) : Nat :=
  if c < 0x80 then 1 else if c < 0x800 then 2 else if c < 0x10000 then 3 else 4

def strByteLen (h : List Nat) : Nat := (h.map utf8Len).sum

/-- `StringIndexingScheme::required_bindings`. -/
def strReq (k : Nat) : List Nat := if k = 0 then [] else [0]

/-- `<String as IndexedData>::list_bind_options`. -/
def strOpts (h : List Nat) (k : Nat) (m : StrPos) : List Nat :=
  if k = 0 then List.range (strByteLen h)
  else
    match m with
    | .unbound => []
    | .bound start _ => if start + k < strByteLen h then [start + k] else []

/-- `<CharacterPredicate as Predicate<String>>::check`; `none` = the `unwrap` on the argument
tuple panics (wrong number of arguments). -/
def strCheck : CharPred → List Nat → List Nat → Option Bool
  | .bindingEq, h, [p1, p2] => some (h[p1]?.isSome && h[p1]? == h[p2]?)
  | .constVal c, h, [p] => some (h[p]? == some c)
  | _, _, _ => none

inductive CharVar where
  | lit (c : Nat)
  | var (c : Nat)
  deriving Repr, DecidableEq

abbrev StrCons := Constraint Nat CharPred

/-- The `for (index, char_var) in self.enumerate()` loop of `try_to_constraint_vec`, generic in
the key type (shared with matrices): `vars` is `var_to_pos`. -/
def charVarLoop {K : Type} : List (K × CharVar) → List (Nat × K) → List (Constraint K CharPred) →
    List (Constraint K CharPred)
  | [], _, cs => cs
  | (i, .lit c) :: rest, vars, cs => charVarLoop rest vars (cs ++ [⟨.constVal c, [i]⟩])
  | (i, .var v) :: rest, vars, cs =>
    match alGet vars v with
    | some first => charVarLoop rest vars (cs ++ [⟨.bindingEq, [i, first]⟩])
    | none => charVarLoop rest (vars ++ [(v, i)]) cs

/-- `StringPattern::try_to_constraint_vec` (never fails). -/
def strConstraints (p : List CharVar) : List StrCons :=
  let cs := charVarLoop ((List.range p.length).zip p) [] []
  match p.length with
  | 0 => cs
  | n + 1 => if cs.any (fun c => c.args.contains n) then cs else cs ++ [⟨.bindingEq, [n, n]⟩]

end Pm
