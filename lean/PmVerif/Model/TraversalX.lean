/-
Model/TraversalX.lean — `SinglePatternMatcher` / `NaiveManyMatcher` with
`Pattern::required_bindings` (after the F5 repair, `fix:` commit in /repo): the keys a pattern
requests beyond those its constraints bind (`extra_bindings`, prerequisites first) are bound
when a candidate has consumed all constraints. For patterns that request nothing (every shipped
pattern type) this is `singleMatches` (`Props/F5.lean`: `singleMatchesX_nil`).
-/
import PmVerif.Model.Traversal
namespace Pm

section
variable {K V P H M : Type} [DecidableEq K] [DecidableEq V] [DecidableEq P]

/-- The final branch of `get_all_bindings` for one candidate: bind the extra keys (completely),
retain the requested keys, keep the complete maps. -/
def finishCandidate (D : Domain K V P H M) (h : H) (requested ekeys : List K) (m : M) : R (List M) :=
  let completed := if ekeys.isEmpty then [m] else bindAll D.map D.opts h m ekeys false
  completed.foldr (fun m' acc =>
    match acc with
    | .error e => .error e
    | .ok xs =>
      match D.map.retain m' requested with
      | none => .error (.panic "retain_keys: bind unwrap")
      | some m'' =>
        if requested.all fun k => (D.map.get m'' k).isSome then .ok (m'' :: xs) else .ok xs) (.ok [])

/-- `get_all_bindings` with extra requested keys. -/
def singleLoopX (D : Domain K V P H M) (h : H) (requested ekeys : List K) (mbFuel : Nat) :
    Nat → List (List (Constraint K P) × M) → List M → R (List M)
  | _, [], out => .ok out
  | 0, _ :: _, _ => .error (.fuel "get_all_bindings")
  | fuel + 1, ([], m) :: queue, out =>
    match finishCandidate D h requested ekeys m with
    | .error e => .error e
    | .ok ms => singleLoopX D h requested ekeys mbFuel fuel queue (out ++ ms)
  | fuel + 1, (c :: rest, m) :: queue, out =>
    match allMissingBindings D.req c.args [] mbFuel with
    | none => .error (.fuel "all_missing_bindings")
    | some keys =>
      let cands := bindAll D.map D.opts h m keys false
      let kept : R (List M) := cands.foldr (fun m' acc =>
        match acc with
        | .error e => .error e
        | .ok xs =>
          match satOrFalse D.map.get D.check c h m' with
          | none => .error (.panic "predicate check")
          | some true => .ok (m' :: xs)
          | some false => .ok xs) (.ok [])
      match kept with
      | .error e => .error e
      | .ok kept =>
        singleLoopX D h requested ekeys mbFuel fuel (queue ++ kept.map fun m' => (rest, m')) out

/-- `SinglePatternMatcher::try_from_pattern` + `find_matches` for a pattern with constraint
vector `cs` and `required_bindings() = extra`. -/
def singleMatchesX (D : Domain K V P H M) (cs : List (Constraint K P)) (extra : List K) (h : H)
    (fuel : Nat) : R (List M) :=
  match requestedBindings D cs fuel with
  | none => .error (.fuel "all_missing_bindings")
  | some ckeys =>
    match allMissingBindings D.req extra ckeys fuel with
    | none => .error (.fuel "all_missing_bindings")
    | some ekeys => singleLoopX D h (ckeys ++ ekeys) ekeys fuel fuel [(cs, D.map.empty)] []

/-- `NaiveManyMatcher::find_matches` over `(constraints, extra keys)` pairs. -/
def naiveMatchesX (D : Domain K V P H M) (h : H) (fuel : Nat) :
    List (List (Constraint K P) × List K) → Nat → R (List (Match M))
  | [], _ => .ok []
  | (cs, extra) :: rest, i =>
    match singleMatchesX D cs extra h fuel with
    | .error e => .error e
    | .ok ms =>
      match naiveMatchesX D h fuel rest (i + 1) with
      | .error e => .error e
      | .ok more => .ok (ms.map (fun m => (i, m)) ++ more)

end
end Pm
