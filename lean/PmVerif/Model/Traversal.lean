/-
Model/Traversal.lean — stages RUN and SINGLE: `AutomatonTraverser` (src/automaton/traversal.rs)
and `SinglePatternMatcher::get_all_bindings` (src/matcher/single_pattern.rs), generic in the
domain.
-/
import PmVerif.Model.Builder
namespace Pm

/-- What the engine needs from a domain (the trait bundle `IndexedData` / `IndexingScheme` /
`BindMap` / `Predicate`). -/
structure Domain (K V P H M : Type) where
  req : K → List K
  opts : H → K → M → List V
  map : MapOps K V M
  arity : P → Nat
  check : P → H → List V → Option Bool

section Run
variable {K V P H M : Type} [DecidableEq K] [DecidableEq V] [DecidableEq P]

/-- A reported match: pattern id and binding map. -/
abbrev Match (M : Type) := Nat × M

/-- `retain_keys` on each candidate (a panic of any of them is a panic of the call). -/
def retainAll (D : Domain K V P H M) (keys : List K) : List M → R (List M)
  | [] => .ok []
  | m :: ms =>
    match D.map.retain m keys with
    | none => .error (.panic "retain_keys: bind unwrap")
    | some m' =>
      match retainAll D keys ms with
      | .error e => .error e
      | .ok ms' => .ok (m' :: ms')

/-- The matches emitted when a state is expanded: for every accepted pattern (in the given
order — choice point c7), bind its missing keys completely and retain its key list. -/
def emitMatches (D : Domain K V P H M) (h : H) (m : M) : List (Nat × List K) → R (List (Match M))
  | [] => .ok []
  | (pid, keys) :: rest =>
    let newKeys := keys.filter fun k => (D.map.get m k).isNone
    let cands := if newKeys.isEmpty then [m] else bindAll D.map D.opts h m newKeys false
    match retainAll D keys cands with
    | .error e => .error e
    | .ok ms =>
      match emitMatches D h m rest with
      | .error e => .error e
      | .ok more => .ok (ms.map (fun x => (pid, x)) ++ more)

/-- `next_legal_states` for one retained candidate binding. -/
def legalFrom (D : Domain K V P H M) (a : Automaton K P) (h : H) (s : Nat) (det : Bool)
    (nonFails : List (Nat × Constraint K P)) (m : M) : R (List (Nat × M)) :=
  let sat : R (List (Nat × M)) := nonFails.foldr (fun (tc : Nat × Constraint K P) acc =>
    match acc with
    | .error e => .error e
    | .ok rest =>
      match satOrFalse D.map.get D.check tc.2 h m with
      | none => .error (.panic "predicate check")
      | some true => .ok ((tc.1, m) :: rest)
      | some false => .ok rest) (.ok [])
  match sat with
  | .error e => .error e
  | .ok valid =>
    if !det || valid.isEmpty then
      match a.failNextState s with
      | .error e => .error e
      | .ok none => .ok valid
      | .ok (some f) => .ok (valid ++ [(f, m)])
    else .ok valid

def legalAll (D : Domain K V P H M) (a : Automaton K P) (h : H) (s : Nat) (det : Bool)
    (nonFails : List (Nat × Constraint K P)) : List M → R (List (Nat × M))
  | [] => .ok []
  | m :: ms =>
    match legalFrom D a h s det nonFails m with
    | .error e => .error e
    | .ok xs =>
      match legalAll D a h s det nonFails ms with
      | .error e => .error e
      | .ok ys => .ok (xs ++ ys)

/-- `next_legal_states(state, host)`. -/
def nextLegalStates (D : Domain K V P H M) (a : Automaton K P) (h : H) (s : Nat) (m : M) :
    R (List (Nat × M)) :=
  match a.state s with
  | .error e => .error e
  | .ok w =>
    let all := bindAll D.map D.opts h m w.scope true
    match retainAll D w.scope all with
    | .error e => .error e
    | .ok cands =>
      let nonFails : R (List (Nat × Constraint K P)) := mapR (fun t =>
        match a.nextState t, a.constraintOf t with
        | .ok n, .ok (some c) => .ok (n, c)
        | .ok _, .ok none => .error (.panic "constraint(t).unwrap()")
        | .error e, _ => .error e
        | _, .error e => .error e) w.corder
      match nonFails with
      | .error e => .error e
      | .ok nf => legalAll D a h s w.det nf cands

/-- The projection the traverser hashes in `visit`: the values of the state's scope followed by
the (first occurrences of the) keys of its accepted patterns. The 64-bit `FxHasher` is modelled
as injective on this list (DESIGN §6, S5). -/
def visitKey (D : Domain K V P H M) (w : AState K) (m : M) : List (Option V) :=
  (w.scope ++ dedup (w.matches_.flatMap (·.2))).map (D.map.get m)

/-- The breadth-first loop of `AutomatonTraverser::next`, run to exhaustion. Returns the
matches in emission order and the visit log `(state, projection)`. -/
def runLoop (D : Domain K V P H M) (a : Automaton K P) (h : H) :
    Nat → List (Nat × M) → List (Nat × List (Option V)) → List (Match M) →
      R (List (Match M) × List (Nat × List (Option V)))
  | _, [], seen, out => .ok (out, seen)
  | 0, _ :: _, _, _ => .error (.fuel "traversal")
  | fuel + 1, (s, m) :: queue, seen, out =>
    match a.state s with
    | .error e => .error e
    | .ok w =>
      let key := (s, visitKey D w m)
      if seen.contains key then runLoop D a h fuel queue seen out
      else
        match emitMatches D h m w.matches_ with
        | .error e => .error e
        | .ok ms =>
          match nextLegalStates D a h s m with
          | .error e => .error e
          | .ok nexts => runLoop D a h fuel (queue ++ nexts) (seen ++ [key]) (out ++ ms)

/-- `ConstraintAutomaton::run(host)` collected. -/
def run (D : Domain K V P H M) (a : Automaton K P) (h : H) (fuel : Nat) :
    R (List (Match M) × List (Nat × List (Option V))) :=
  runLoop D a h fuel [(a.root, D.map.empty)] [] []

/-! ### the baseline matcher -/

/-- `SinglePatternMatcher::try_from_pattern`: the requested bindings. -/
def requestedBindings (D : Domain K V P H M) (cs : List (Constraint K P)) (fuel : Nat) :
    Option (List K) :=
  allMissingBindings D.req (cs.flatMap (·.args)) [] fuel

/-- The candidate loop of `get_all_bindings`: a FIFO of `(remaining constraints, bindings)`. -/
def singleLoop (D : Domain K V P H M) (h : H) (requested : List K) (mbFuel : Nat) :
    Nat → List (List (Constraint K P) × M) → List M → R (List M)
  | _, [], out => .ok out
  | 0, _ :: _, _ => .error (.fuel "get_all_bindings")
  | fuel + 1, ([], m) :: queue, out =>
    match D.map.retain m requested with
    | none => .error (.panic "retain_keys: bind unwrap")
    | some m' =>
      if requested.all fun k => (D.map.get m' k).isSome then
        singleLoop D h requested mbFuel fuel queue (out ++ [m'])
      else singleLoop D h requested mbFuel fuel queue out
  | fuel + 1, (c :: rest, m) :: queue, out =>
    match allMissingBindings D.req c.args [] mbFuel with
    | none => .error (.fuel "all_missing_bindings")
    | some keys =>
      let cands := bindAll D.map D.opts h m keys false
      let kept : R (List M) := cands.foldr (fun m' acc =>
        match acc with
        | .error e => .error e
        | .ok xs =>
          match satOrFalse D.map.get D.check c h m' with
          | none => .error (.panic "predicate check")
          | some true => .ok (m' :: xs)
          | some false => .ok xs) (.ok [])
      match kept with
      | .error e => .error e
      | .ok kept => singleLoop D h requested mbFuel fuel (queue ++ kept.map fun m' => (rest, m')) out

/-- `SinglePatternMatcher::find_matches` (bindings only; the id is always 0). -/
def singleMatches (D : Domain K V P H M) (cs : List (Constraint K P)) (h : H) (fuel : Nat) :
    R (List M) :=
  match requestedBindings D cs fuel with
  | none => .error (.fuel "all_missing_bindings")
  | some requested => singleLoop D h requested fuel fuel [(cs, D.map.empty)] []

/-- `NaiveManyMatcher::find_matches`: ids are positions in the input. -/
def naiveMatches (D : Domain K V P H M) (h : H) (fuel : Nat) :
    List (List (Constraint K P)) → Nat → R (List (Match M))
  | [], _ => .ok []
  | cs :: rest, i =>
    match singleMatches D cs h fuel with
    | .error e => .error e
    | .ok ms =>
      match naiveMatches D h fuel rest (i + 1) with
      | .error e => .error e
      | .ok more => .ok (ms.map (fun m => (i, m)) ++ more)

end Run
end Pm
