/-
Model/RenderPG.lean — stage RENDER for the PORT-GRAPH domain:
`ConstraintAutomaton<PGIndexKey, PGPredicate<()>, _>::dot_string()` (src/automaton.rs), i.e. the
generic `Render.dotTxt` (`Model/Render.lean`) instantiated with the `Debug` impls of

* `PGIndexKey` (src/portgraph/indexing.rs): `Root({index})` and
  `Along({path_root}, in{i}|out{i})@{path_length})` — the closing parenthesis after the length
  has no partner in the source either; it is part of the format string;
* `PGPredicate<()>` (src/portgraph/predicate.rs): `has_node_weight({:?})` of the unit weight,
  `{:?} -> {:?}` of the two `PortOffset`s, `not_equal({n_other})`;
* `portgraph::PortOffset` (portgraph 0.12.3, src/lib.rs): `Incoming({idx})` / `Outgoing({idx})`.

Text is a list of Unicode code points, as in `Model/Render.lean`. External crates (portgraph,
petgraph, core::fmt): modelled, not verified; the correspondence stage `render` (records
`RND G`) compares the result code point by code point with the real `dot_string()`.
-/
import PmVerif.Model.Render
import PmVerif.Model.PortGraph
namespace Pm
namespace Render

/-! ### literals -/
def tRootOpen : Txt := [82, 111, 111, 116, 40]                            -- `Root(`
def tAlongOpen : Txt := [65, 108, 111, 110, 103, 40]                      -- `Along(`
def tIn : Txt := [105, 110]                                               -- `in`
def tOut : Txt := [111, 117, 116]                                         -- `out`
def tCloseAt : Txt := [41, 64]                                            -- `)@`
def tHasNodeWeightUnit : Txt :=                                           -- `has_node_weight(())`
  [104, 97, 115, 95, 110, 111, 100, 101, 95, 119, 101, 105, 103, 104, 116, 40, 40, 41, 41]
def tIncomingOpen : Txt := [73, 110, 99, 111, 109, 105, 110, 103, 40]     -- `Incoming(`
def tOutgoingOpen : Txt := [79, 117, 116, 103, 111, 105, 110, 103, 40]    -- `Outgoing(`
def tNotEqualOpen : Txt := [110, 111, 116, 95, 101, 113, 117, 97, 108, 40] -- `not_equal(`

#guard tRootOpen == ofString "Root("
#guard tAlongOpen == ofString "Along("
#guard tIn == ofString "in"
#guard tOut == ofString "out"
#guard tCloseAt == ofString ")@"
#guard tHasNodeWeightUnit == ofString "has_node_weight(())"
#guard tIncomingOpen == ofString "Incoming("
#guard tOutgoingOpen == ofString "Outgoing("
#guard tNotEqualOpen == ofString "not_equal("

/-! ### keys and predicates -/

/-- the port inside `Debug for PGIndexKey`: `in{i}` / `out{i}` -/
def pgPortShortTxt (o : POff) : Txt :=
  (match o.dir with | .inc => tIn | .out => tOut) ++ natTxt o.idx

/-- `Debug for PGIndexKey` -/
def pgKeyTxt : PGKey → Txt
  | .root i => tRootOpen ++ (natTxt i ++ [41])
  | .along r p l =>
    tAlongOpen ++ (natTxt r ++ 44 :: 32 :: (pgPortShortTxt p ++ (tCloseAt ++ (natTxt l ++ [41]))))

/-- `Debug for portgraph::PortOffset` -/
def pgOffTxt (o : POff) : Txt :=
  (match o.dir with | .inc => tIncomingOpen | .out => tOutgoingOpen) ++ (natTxt o.idx ++ [41])

/-- `Debug for PGPredicate<()>` -/
def pgPredTxt : PGPred → Txt
  | .hasNodeWeight => tHasNodeWeightUnit
  | .isConnected l r => pgOffTxt l ++ (tArrow ++ pgOffTxt r)
  | .isNotEqual n => tNotEqualOpen ++ (natTxt n ++ [41])

#guard pgKeyTxt (.root 12) == ofString "Root(12)"
#guard pgKeyTxt (.along 1 ⟨.inc, 0⟩ 3) == ofString "Along(1, in0)@3)"
#guard pgKeyTxt (.along 0 ⟨.out, 21⟩ 10) == ofString "Along(0, out21)@10)"
#guard pgPredTxt .hasNodeWeight == ofString "has_node_weight(())"
#guard pgPredTxt (.isConnected ⟨.out, 2⟩ ⟨.inc, 0⟩) == ofString "Outgoing(2) -> Incoming(0)"
#guard pgPredTxt (.isNotEqual 3) == ofString "not_equal(3)"
#guard consTxt pgKeyTxt pgPredTxt ⟨.isNotEqual 1, [.root 1, .root 0]⟩
  == ofString "not_equal(1)(Root(1), Root(0))"

/-- `ConstraintAutomaton<PGIndexKey, PGPredicate<()>, _>::dot_string()` as code points -/
def pgDotTxt (a : Automaton PGKey PGPred) : Txt := dotTxt pgKeyTxt pgPredTxt a

/-- `ConstraintAutomaton<PGIndexKey, PGPredicate<()>, _>::dot_string()` -/
def pgDotString (a : Automaton PGKey PGPred) : String := dotString pgKeyTxt pgPredTxt a

end Render
end Pm
