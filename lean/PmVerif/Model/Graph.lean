/-
Model/Graph.lean — stage GRAPH: `petgraph::stable_graph::StableGraph` as the automaton and the
online toposort use it (DESIGN Appendix A): stable node and edge slots, LIFO free lists,
head-insertion adjacency lists, nothing yielded for a vacant node. External crate: modelled,
not verified (DESIGN §6); the exact replay of every build cross-checks it.
-/
import PmVerif.Model.Basic
namespace Pm

structure GEdge (E : Type) where
  src : Nat
  dst : Nat
  w : E
  deriving Repr, DecidableEq

structure GNode (N : Type) where
  w : N
  /-- outgoing edge ids, newest first -/
  out : List Nat
  /-- incoming edge ids, newest first -/
  inc : List Nat
  deriving Repr, DecidableEq

structure SGraph (N E : Type) where
  nodes : List (Option (GNode N))
  edges : List (Option (GEdge E))
  /-- vacant node slots, most recently vacated first -/
  freeNodes : List Nat
  freeEdges : List Nat
  deriving Repr

namespace SGraph
variable {N E : Type}

def empty : SGraph N E := ⟨[], [], [], []⟩

def node? (g : SGraph N E) (i : Nat) : Option (GNode N) := (g.nodes[i]?).join
def edge? (g : SGraph N E) (e : Nat) : Option (GEdge E) := (g.edges[e]?).join

def containsNode (g : SGraph N E) (i : Nat) : Bool := (g.node? i).isSome

/-- `node_indices()`: ascending, vacant slots skipped. -/
def nodeIndices (g : SGraph N E) : List Nat :=
  (List.range g.nodes.length).filter g.containsNode

def nodeCount (g : SGraph N E) : Nat := g.nodeIndices.length

/-- `add_node`: reuse the most recently vacated slot, else append. -/
def addNode (g : SGraph N E) (w : N) : SGraph N E × Nat :=
  match g.freeNodes with
  | i :: rest => ({ g with nodes := g.nodes.set i (some ⟨w, [], []⟩), freeNodes := rest }, i)
  | [] => ({ g with nodes := g.nodes ++ [some ⟨w, [], []⟩] }, g.nodes.length)

def modifyNode (g : SGraph N E) (i : Nat) (f : GNode N → GNode N) : SGraph N E :=
  { g with nodes := g.nodes.modify i (fun o => o.map f) }

/-- `add_edge(a, b, w)`: panics if `a` or `b` is vacant; the new edge becomes the head of `a`'s
out-list and of `b`'s in-list; reuses the most recently freed edge id. -/
def addEdge (g : SGraph N E) (a b : Nat) (w : E) : R (SGraph N E × Nat) :=
  if !(g.containsNode a && g.containsNode b) then .error (.panic "StableGraph::add_edge")
  else
    let (edges, freeEdges, e) := match g.freeEdges with
      | e :: rest => (g.edges.set e (some ⟨a, b, w⟩), rest, e)
      | [] => (g.edges ++ [some ⟨a, b, w⟩], [], g.edges.length)
    let g := { g with edges := edges, freeEdges := freeEdges }
    let g := g.modifyNode a fun nd => { nd with out := e :: nd.out }
    let g := g.modifyNode b fun nd => { nd with inc := e :: nd.inc }
    .ok (g, e)

/-- `remove_edge(e)`: `none` if the edge does not exist. -/
def removeEdge (g : SGraph N E) (e : Nat) : Option (SGraph N E × GEdge E) :=
  match g.edge? e with
  | none => none
  | some ed =>
    let g := g.modifyNode ed.src fun nd => { nd with out := nd.out.erase e }
    let g := g.modifyNode ed.dst fun nd => { nd with inc := nd.inc.erase e }
    some ({ g with edges := g.edges.set e none, freeEdges := e :: g.freeEdges }, ed)

def removeEdges (g : SGraph N E) : List Nat → SGraph N E
  | [] => g
  | e :: es => match g.removeEdge e with
    | none => removeEdges g es
    | some (g', _) => removeEdges g' es

/-- `remove_node(a)`: removes its out-edges (head first), then its in-edges, then vacates the
slot. Nothing happens for a vacant slot. -/
def removeNode (g : SGraph N E) (a : Nat) : SGraph N E :=
  match g.node? a with
  | none => g
  | some nd =>
    let g := g.removeEdges nd.out
    let inc := match g.node? a with | some nd' => nd'.inc | none => []
    let g := g.removeEdges inc
    { g with nodes := g.nodes.set a none, freeNodes := a :: g.freeNodes }

/-- `edges_directed(a, Outgoing)` as `(edge id, target)`, newest first; empty for a vacant node. -/
def outEdges (g : SGraph N E) (a : Nat) : List (Nat × Nat) :=
  match g.node? a with
  | none => []
  | some nd => nd.out.filterMap fun e => (g.edge? e).map fun ed => (e, ed.dst)

/-- `edges_directed(a, Incoming)` as `(edge id, source)`. -/
def inEdges (g : SGraph N E) (a : Nat) : List (Nat × Nat) :=
  match g.node? a with
  | none => []
  | some nd => nd.inc.filterMap fun e => (g.edge? e).map fun ed => (e, ed.src)

def succs (g : SGraph N E) (a : Nat) : List Nat := (g.outEdges a).map (·.2)
def preds (g : SGraph N E) (a : Nat) : List Nat := (g.inEdges a).map (·.2)

def setWeight (g : SGraph N E) (i : Nat) (f : N → N) : SGraph N E :=
  g.modifyNode i fun nd => { nd with w := f nd.w }

def weight? (g : SGraph N E) (i : Nat) : Option N := (g.node? i).map (·.w)

end SGraph
end Pm
