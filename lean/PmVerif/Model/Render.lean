/-
Model/Render.lean — stage RENDER: `ConstraintAutomaton::dot_string()` (src/automaton.rs), i.e.
`format!("{:?}", petgraph::dot::Dot::new(&self.graph))` with the `Debug` impls of `State`,
`Transition`, `Constraint`, `CharacterPredicate`, `StringPatternPosition`,
`MatrixPatternPosition`, `PatternID` and petgraph 0.6.5's `Escaper`.

Text is a list of Unicode code points (`List Nat`): everything proved about the rendering
(`Props/Render.lean`) is proved about these lists; `dotString` only packs them into a `String`.
External crate (petgraph `Dot`, `core::fmt` of integers, tuples, `Vec`, `HashMap`): modelled, not
verified; the correspondence stage `render` compares the result code point by code point with
the real `dot_string()` on every generated build.

The order in which a state's `matches` map is printed is the map's iteration order (choice
point c7): the rendering prints `AState.matches_` in list order, the driver puts the dumped
order there.
-/
import PmVerif.Model.Automaton
import PmVerif.Model.MatrixDom
namespace Pm
namespace Render

/-- text = list of Unicode code points -/
abbrev Txt := List Nat

/-! ### literals (code points written out; `#guard`s below tie them to the Rust text) -/
def tHeader : Txt := [100, 105, 103, 114, 97, 112, 104, 32, 123]          -- `digraph {`
def tFooter : Txt := [125]                                                -- `}`
def tIndent : Txt := [32, 32, 32, 32]
def tArrow : Txt := [32, 45, 62, 32]                                      -- ` -> `
def tLabelOpen : Txt := [32, 91, 32, 108, 97, 98, 101, 108, 32, 61, 32, 34]  -- ` [ label = "`
def tLabelClose : Txt := [34, 32, 93]                                     -- `" ]`
def tScope : Txt := [115, 99, 111, 112, 101, 58, 32]                      -- `scope: `
def tCharAt : Txt := [99, 104, 97, 114, 64]                               -- `char@`
def tVarEq : Txt := [86, 97, 114, 105, 97, 98, 108, 101, 69, 113]         -- `VariableEq`
def tConstOpen : Txt := [67, 111, 110, 115, 116, 91]                      -- `Const[`
def tSep : Txt := [44, 32]                                                -- `, `
def tColon : Txt := [58, 32]                                              -- `: `
def cEps : Nat := 949                                                     -- `ε`
def cQuote : Nat := 34
def cBackslash : Nat := 92
def cNewline : Nat := 10
def cLowerL : Nat := 108

def ofString (s : String) : Txt := s.toList.map Char.toNat

#guard tHeader == ofString "digraph {"
#guard tFooter == ofString "}"
#guard tIndent == ofString "    "
#guard tArrow == ofString " -> "
#guard tLabelOpen == ofString " [ label = \""
#guard tLabelClose == ofString "\" ]"
#guard tScope == ofString "scope: "
#guard tCharAt == ofString "char@"
#guard tVarEq == ofString "VariableEq"
#guard tConstOpen == ofString "Const["
#guard tSep == ofString ", "
#guard tColon == ofString ": "
#guard [cEps] == ofString "ε"
#guard [cQuote, cBackslash, cNewline, cLowerL] == ofString "\"\\\nl"

/-! ### integers (`core::fmt::Display for usize / isize`) -/

/-- decimal digits, least significant first; `fuel > n` suffices -/
def digitsRev : Nat → Nat → List Nat
  | 0, _ => []
  | f + 1, n => if n < 10 then [n] else (n % 10) :: digitsRev f (n / 10)

/-- `format!("{}", n)` for an unsigned integer -/
def natTxt (n : Nat) : Txt := ((digitsRev (n + 1) n).reverse).map (48 + ·)

/-- `format!("{}", i)` for a signed integer -/
def intTxt : Int → Txt
  | .ofNat n => natTxt n
  | .negSucc n => 45 :: natTxt (n + 1)

#guard natTxt 0 == ofString "0"
#guard natTxt 1907 == ofString "1907"
#guard intTxt (-12) == ofString "-12"

/-! ### `Debug` of sequences -/

/-- `, x` for every further item -/
def sepTail {α : Type} (f : α → Txt) : List α → Txt
  | [] => []
  | y :: r => 44 :: 32 :: (f y ++ sepTail f r)

/-- items separated by `, ` (`DebugList` / `DebugMap` / `join(", ")`, non-alternate) -/
def sepBy {α : Type} (f : α → Txt) : List α → Txt
  | [] => []
  | x :: r => f x ++ sepTail f r

/-- `{:?}` of a `Vec` / slice -/
def listTxt {α : Type} (f : α → Txt) (xs : List α) : Txt := 91 :: (sepBy f xs ++ [93])

/-! ### keys and predicates of the two shipped character domains -/

/-- `Debug for StringPatternPosition`: `char@{}` -/
def strKeyTxt (k : Nat) : Txt := tCharAt ++ natTxt k

/-- `Debug for MatrixPatternPosition`: `char@{:?}` of the pair -/
def matKeyTxt (k : MKey) : Txt :=
  tCharAt ++ 40 :: (intTxt k.1 ++ 44 :: 32 :: (intTxt k.2 ++ [41]))

/-- `Debug for CharacterPredicate`: `VariableEq` / `Const[{}]` (the character itself) -/
def charPredTxt : CharPred → Txt
  | .bindingEq => tVarEq
  | .constVal c => tConstOpen ++ [c, 93]

/-! ### labels -/
section
variable {K P : Type} (showKey : K → Txt) (showPred : P → Txt)

/-- `Debug for Constraint`: predicate, then the arguments in parentheses -/
def consTxt (c : Constraint K P) : Txt :=
  showPred c.pred ++ 40 :: (sepBy showKey c.args ++ [41])

/-- `Debug for Transition` -/
def transTxt : Option (Constraint K P) → Txt
  | none => [cEps]
  | some c => consTxt showKey showPred c

/-- one entry of the `matches` map: `PatternID` prints as its number -/
def matchTxt (m : Nat × List K) : Txt := natTxt m.1 ++ tColon ++ listTxt showKey m.2

/-- ` {:?}` of a non-empty `matches` map, nothing for an empty one -/
def matchesTxt (ms : List (Nat × List K)) : Txt :=
  match ms with
  | [] => []
  | _ :: _ => 32 :: 123 :: (sepBy (matchTxt showKey) ms ++ [125])

/-- `Debug for State` on the fields it prints -/
def stateTxt (det : Bool) (ms : List (Nat × List K)) (scope : List K) : Txt :=
  (if det then [68] else [78, 68]) ++ matchesTxt showKey ms ++
  cNewline :: (tScope ++ listTxt showKey scope)

end

/-! ### petgraph's `Escaper` -/

def escChar (c : Nat) : Txt :=
  if c = cQuote then [cBackslash, cQuote]
  else if c = cBackslash then [cBackslash, cBackslash]
  else if c = cNewline then [cBackslash, cLowerL]
  else [c]

def escape : Txt → Txt
  | [] => []
  | c :: r => escChar c ++ escape r

#guard escape (ofString "\" \\ \n") == ofString "\\\" \\\\ \\l"   -- petgraph's own `test_escape`

/-! ### the graph -/

/-- What `Dot` prints, before any text is produced: one item per live node (index order), then
one per live edge (edge-index order). -/
inductive DotItem (K P : Type) where
  | node (id : Nat) (det : Bool) (ms : List (Nat × List K)) (scope : List K)
  | edge (src dst : Nat) (c : Option (Constraint K P))
  deriving Repr, DecidableEq

def DotItem.isEdge {K P : Type} : DotItem K P → Bool
  | .edge .. => true
  | .node .. => false

/-- `edge_references()` of a `StableGraph`: live edge slots, ascending -/
def edgeIndices {N E : Type} (g : SGraph N E) : List Nat :=
  (List.range g.edges.length).filter fun e => (g.edge? e).isSome

section
variable {K P : Type}

def nodeItems (a : Automaton K P) : List (DotItem K P) :=
  a.g.nodeIndices.filterMap fun i =>
    (a.g.node? i).map fun nd => .node i nd.w.det nd.w.matches_ nd.w.scope

def edgeItems (a : Automaton K P) : List (DotItem K P) :=
  (edgeIndices a.g).filterMap fun e =>
    (a.g.edge? e).map fun ed => .edge ed.src ed.dst ed.w

def dotItems (a : Automaton K P) : List (DotItem K P) := nodeItems a ++ edgeItems a

variable (showKey : K → Txt) (showPred : P → Txt)

/-- the un-escaped label of an item -/
def itemLabel : DotItem K P → Txt
  | .node _ det ms scope => stateTxt showKey det ms scope
  | .edge _ _ c => transTxt showKey showPred c

/-- what precedes ` [ label = "` -/
def itemHead : DotItem K P → Txt
  | .node id .. => tIndent ++ natTxt id
  | .edge s d _ => tIndent ++ natTxt s ++ tArrow ++ natTxt d

/-- one output line (without the line terminator) -/
def itemLine (it : DotItem K P) : Txt :=
  itemHead it ++ tLabelOpen ++ escape (itemLabel showKey showPred it) ++ tLabelClose

/-- the lines of `dot_string()` -/
def dotLines (a : Automaton K P) : List Txt :=
  tHeader :: ((dotItems a).map (itemLine showKey showPred) ++ [tFooter])

/-- every line is terminated by `\n` (`writeln!`) -/
def unlines : List Txt → Txt
  | [] => []
  | l :: r => l ++ cNewline :: unlines r

/-- `dot_string()` as code points -/
def dotTxt (a : Automaton K P) : Txt := unlines (dotLines showKey showPred a)

/-- `dot_string()` -/
def dotString (a : Automaton K P) : String :=
  String.ofList ((dotTxt showKey showPred a).map Char.ofNat)

end

/-- `ConstraintAutomaton<StringPatternPosition, CharacterPredicate, _>::dot_string()` -/
def strDotTxt (a : Automaton Nat CharPred) : Txt := dotTxt strKeyTxt charPredTxt a
def strDotString (a : Automaton Nat CharPred) : String := dotString strKeyTxt charPredTxt a

/-- `ConstraintAutomaton<MatrixPatternPosition, CharacterPredicate, _>::dot_string()` -/
def matDotTxt (a : Automaton MKey CharPred) : Txt := dotTxt matKeyTxt charPredTxt a
def matDotString (a : Automaton MKey CharPred) : String := dotString matKeyTxt charPredTxt a

end Render

/-- re-exports under `Pm` -/
abbrev dotString {K P : Type} := @Render.dotString K P
abbrev dotLines {K P : Type} := @Render.dotLines K P

end Pm
