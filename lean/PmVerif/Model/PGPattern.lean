/-
Model/PGPattern.lean — stage PG-PAT: `line_partition` (src/utils/portgraph.rs),
`constraint_vec` (src/portgraph/constraint.rs), the decomposition `mutex_filter`
(src/portgraph/constraint/mutex.rs) and `PGPredicate::conditioned`.
-/
import PmVerif.Model.PGIndexing
namespace Pm

abbrev PLink := Port × Port

/-- `as_ordered_pair` is only used as a set key: two links are the same iff they join the same
two ports. -/
def sameLink (a b : PLink) : Bool := (a.1 = b.1 ∧ a.2 = b.2) ∨ (a.1 = b.2 ∧ a.2 = b.1)

def linkVisited (vis : List PLink) (l : PLink) : Bool := vis.any (sameLink l)

/-- The inner `loop` of `line_partition`: extend the current line from its last port. Returns the
line, the updated queue, visited links and visited nodes. -/
def extendLine (g : PortGraph) :
    Nat → List PLink → List PLink → List PLink → List Nat →
      List PLink × List PLink × List PLink × List Nat
  | 0, line, queue, visL, visN => (line, queue, visL, visN)
  | fuel + 1, line, queue, visL, visN =>
    match line.getLast? with
    | none => (line, queue, visL, visN)
    | some last =>
      let lastPort := last.2
      let curr := lastPort.1
      let (queue, visN) :=
        if visN.contains curr then (queue, visN)
        else (queue ++ (g.allLinks curr).filter (fun l => !linkVisited visL l), visN ++ [curr])
      let left : Port := (curr, lastPort.2.opposite)
      -- (F3a repair) a line ends when it is back at the node it started from
      if (line.head?.map fun l => l.1.1) == some curr then (line, queue, visL, visN)
      else if !g.portExists left then (line, queue, visL, visN)
      else
        match g.portLink left with
        | none => (line, queue, visL, visN)
        | some right =>
          if linkVisited visL (left, right) then (line, queue, visL, visN)
          else extendLine g fuel (line ++ [(left, right)]) queue (visL ++ [(left, right)]) visN

/-- The `while let Some(line_start) = next_links.pop_front()` loop. -/
def linePartitionLoop (g : PortGraph) :
    Nat → List PLink → List PLink → List Nat → List (List PLink) → List (List PLink)
  | 0, _, _, _, lines => lines
  | _, [], _, _, lines => lines
  | fuel + 1, start :: queue, visL, visN, lines =>
    if linkVisited visL start then linePartitionLoop g fuel queue visL visN lines
    else
      let (line, queue, visL, visN) :=
        extendLine g (g.links.length + 1) [start] queue (visL ++ [start]) visN
      linePartitionLoop g fuel queue visL visN (lines ++ [line])

/-- `line_partition(graph, root)`. Every loop iteration pops a queue entry; each link is queued
at most twice per endpoint, so `4 * links + 4` iterations suffice. -/
def linePartition (g : PortGraph) (root : Nat) : List (List PLink) :=
  linePartitionLoop g (4 * g.links.length + 4 + 2 * (g.allLinks root).length) (g.allLinks root) []
    [root] []

/-- The body of `constraint_vec`'s loops. `nodeToKey` is the insertion-ordered image of the hash
map; the `IsNotEqual` arguments list its values in insertion order (the Rust code uses hash
order — choice point c6; compared up to permutation of these arguments). `none` = the
`expect("unknown edge LHS")` panics. -/
def consLine (rootIndex : Nat) (rootOffset : POff) :
    List PLink → Nat → List (Nat × PGKey) → List PGCons → Option (List (Nat × PGKey) × List PGCons)
  | [], _, n2k, cs => some (n2k, cs)
  | (left, right) :: rest, i, n2k, cs =>
    match alGet n2k left.1 with
    | none => none
    | some leftKey =>
      let (rightKey, n2k, cs) : PGKey × List (Nat × PGKey) × List PGCons :=
        match alGet n2k right.1 with
        | some k => (k, n2k, cs)
        | none =>
          let key := PGKey.along rootIndex rootOffset (i + 1)
          (key, n2k ++ [(right.1, key)],
            cs ++ [⟨.isNotEqual n2k.length, key :: n2k.map (·.2)⟩])
      consLine rootIndex rootOffset rest (i + 1) n2k
        (cs ++ [⟨.isConnected left.2 right.2, [leftKey, rightKey]⟩])

def consLines :
    List (List PLink) → List (Nat × PGKey) → List (Nat × Nat) → List PGCons → Option (List PGCons)
  | [], _, _, cs => some cs
  | line :: lines, n2k, n2r, cs =>
    match line.head? with
    | none => none   -- `line[0]`: lines are never empty
    | some first =>
      let rootNode := first.1.1
      let (rootIndex, n2r) := match alGet n2r rootNode with
        | some i => (i, n2r)
        | none => (n2r.length, n2r ++ [(rootNode, n2r.length)])
      match consLine rootIndex first.1.2 line 0 n2k cs with
      | none => none
      | some (n2k, cs) => consLines lines n2k n2r cs

/-- `constraint_vec(graph, root)` (`none` = panic). -/
def pgConstraints (g : PortGraph) (root : Nat) : Option (List PGCons) :=
  if g.edgeCount = 0 then some [⟨.hasNodeWeight, [.root 0]⟩]
  else
    match consLines (linePartition g root) [(root, .root 0)] [(root, 0)] [] with
    | none => none
    | some cs => if cs.isEmpty then some [⟨.isNotEqual 0, [.root 0]⟩] else some cs

/-! ### decomposition -/

def maxKey (c : PGCons) : PGKey :=
  c.args.foldl (fun m k => if m.lt k then k else m) (c.args.headD (.root 0))

/-- `Ord for PGConstraint`: by `(max key, predicate)`. -/
def pgConsLe (a b : PGCons) : Bool :=
  let ka := maxKey a
  let kb := maxKey b
  if ka.lt kb then true else if kb.lt ka then false
  else !(b.pred.lt a.pred)

def insertKeySet (x : PGKey) : List PGKey → List PGKey
  | [] => [x]
  | y :: ys => if x.lt y then x :: y :: ys else if x = y then y :: ys else y :: insertKeySet x ys

/-- `PGPredicate::conditioned`. -/
def pgCond (c : PGCons) (satisfied : List PGCons) : Option PGCons :=
  match c.pred, c.args with
  | .isNotEqual _, first :: others =>
    let keys := others.foldl (fun s k => insertKeySet k s) []
    let keys := satisfied.foldl (fun (ks : List PGKey) s =>
      match s.args with
      | f :: os => if f = first then ks.filter (fun k => !os.contains k) else ks
      | [] => ks) keys
    if keys.isEmpty then none else some ⟨.isNotEqual keys.length, first :: keys⟩
  | _, _ => some c

def fstArgEq (a b : PGCons) : Bool := a.args.head? == b.args.head?

/-- `mutex_filter` + `to_constraints_tree` for `PGPredicate`. -/
def pgTree (cs : List PGCons) (fuel : Nat) : Option (CTree PGCons) :=
  if cs.isEmpty then some CTree.new
  else
    let sorted := sortWithIndices pgConsLe cs
    match sorted with
    | [] => none
    | (first, _) :: _ =>
      match first.pred with
      | .isNotEqual _ =>
        let kept := sorted.filter fun ci =>
          (match ci.1.pred with | .isNotEqual _ => true | _ => false) && fstArgEq ci.1 first
        (withPowerset pgCond kept fuel).map fun t => { t with makeDet := true }
      | _ =>
        some { CTree.withTransitiveMutex sorted (fun a b =>
          match a.pred, b.pred with
          | .hasNodeWeight, .hasNodeWeight => fstArgEq a b
          | .isConnected la _, .isConnected lb _ => la == lb && fstArgEq a b
          | _, _ => false) with makeDet := true }

end Pm
