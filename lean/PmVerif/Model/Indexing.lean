/-
Model/Indexing.lean — stage IDX: `IndexingScheme::missing_bindings`,
`all_missing_bindings` and `IndexedData::bind_all` (src/indexing.rs).
-/
import PmVerif.Model.Basic
namespace Pm

/-- `DfsState` of `missing_bindings`. -/
inductive Frame (K : Type) where
  | enter (k : K)
  | exit  (k : K)
  deriving Repr, DecidableEq

section Missing
variable {K : Type} [DecidableEq K]

/-- The `while let Some(state) = stack.pop()` loop of `missing_bindings` (after the F1 repair:
a key is marked visited when its `DfsEnter` frame is popped). The stack is a list with its top
at the head: Rust pushes `DfsExit(k)` and then one `DfsEnter(r)` per prerequisite in order, so
the last prerequisite ends up on top. One unit of fuel per loop iteration. -/
def mbLoop (req : K → List K) (known : List K) :
    Nat → List (Frame K) → List K → List K → Option (List K)
  | _, [], _, out => some out
  | 0, _ :: _, _, _ => none
  | fuel + 1, .enter k :: st, vis, out =>
    if k ∈ vis then mbLoop req known fuel st vis out
    else
      let pushes := (req k).filter (fun r => r ∉ known ∧ r ∉ (k :: vis))
      mbLoop req known fuel ((pushes.reverse.map Frame.enter) ++ Frame.exit k :: st) (k :: vis) out
  | fuel + 1, .exit k :: st, vis, out => mbLoop req known fuel st vis (out ++ [k])

/-- `IndexingScheme::missing_bindings(key, known)`. -/
def missingBindings (req : K → List K) (known : List K) (k : K) (fuel : Nat) : Option (List K) :=
  if k ∈ known then some [] else mbLoop req known fuel [.enter k] [] []

/-- The pinned (pre-repair) algorithm: visited is marked at *push* time. Kept to document
finding F1 (`Props/C12.lean`, `c12_old_misorders`). -/
def mbLoopOld (req : K → List K) (known : List K) :
    Nat → List (Frame K) → List K → List K → Option (List K)
  | _, [], _, out => some out
  | 0, _ :: _, _, _ => none
  | fuel + 1, .enter k :: st, vis, out =>
    -- push each not-known, not-visited prerequisite, marking it visited as it is pushed
    let step := fun (acc : List (Frame K) × List K) (r : K) =>
      if r ∉ known ∧ r ∉ acc.2 then (Frame.enter r :: acc.1, r :: acc.2) else acc
    let (st', vis') := (req k).foldl step (Frame.exit k :: st, vis)
    mbLoopOld req known fuel st' vis' out
  | fuel + 1, .exit k :: st, vis, out => mbLoopOld req known fuel st vis (out ++ [k])

def missingBindingsOld (req : K → List K) (known : List K) (k : K) (fuel : Nat) : Option (List K) :=
  if k ∈ known then some [] else mbLoopOld req known fuel [.enter k] [k] []

/-- `IndexingScheme::all_missing_bindings(keys, known)`: one `missing_bindings` call per
requested key that is not yet known, each extending the known set by what it returned. -/
def allMissingLoop (req : K → List K) (fuel : Nat) :
    List K → List K → List K → Option (List K)
  | [], _, out => some out
  | k :: ks, known, out =>
    if k ∈ known then allMissingLoop req fuel ks known out
    else
      match missingBindings req known k fuel with
      | none => none
      | some missing => allMissingLoop req fuel ks (known ++ missing) (out ++ missing)

def allMissingBindings (req : K → List K) (keys known : List K) (fuel : Nat) : Option (List K) :=
  allMissingLoop req fuel keys known []

end Missing

/-- Errors of `BindMap::bind` (`BindVariableError`). -/
inductive BindErr where
  | variableExists
  | invalidKey
  deriving Repr, DecidableEq

/-- The operations of a `BindMap` (src/indexing.rs). `retain` models `retain_keys` and may
panic (`none`): the trait's default implementation re-binds with `unwrap`. The key list is the
*iteration order* of the hash set handed to `retain_keys` (choice point c8). -/
structure MapOps (K V M : Type) where
  empty  : M
  get    : M → K → Option V
  bind   : M → K → V → Except BindErr M
  retain : M → List K → Option M

section BindAll
variable {K V M H : Type}

/-- One key, one candidate: the body of the inner loop of `bind_all`. -/
def extend (ops : MapOps K V M) (opts : H → K → M → List V) (h : H) (inc : Bool) (k : K) (m : M) :
    List M :=
  if (ops.get m k).isSome then [m]
  else
    let vs := opts h k m
    if vs.isEmpty && inc then [m]
    else vs.filterMap (fun v => match ops.bind m k v with | .ok m' => some m' | .error _ => none)

/-- `IndexedData::bind_all(bindings, new_keys, allow_incomplete)`: outer loop over the keys,
inner loop over the candidates, in order. -/
def bindAllLoop (ops : MapOps K V M) (opts : H → K → M → List V) (h : H) (inc : Bool) :
    List K → List M → List M
  | [], cands => cands
  | k :: ks, cands => bindAllLoop ops opts h inc ks (cands.flatMap (extend ops opts h inc k))

def bindAll (ops : MapOps K V M) (opts : H → K → M → List V) (h : H) (m : M) (ks : List K)
    (inc : Bool) : List M :=
  bindAllLoop ops opts h inc ks [m]

end BindAll
end Pm
