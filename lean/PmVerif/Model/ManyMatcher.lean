/-
Model/ManyMatcher.lean — stage MANY: `ManyMatcher::try_from_patterns_with_det_heuristic`,
`get_pattern`, `n_patterns`, `find_matches` (src/matcher/many_patterns/automaton.rs).
-/
import PmVerif.Model.Traversal
import PmVerif.Model.PGPattern
namespace Pm

section
variable {K V P H M Pat : Type} [DecidableEq K] [DecidableEq V] [DecidableEq P]

/-- The `for (id, pattern) in patterns.iter().enumerate()` loop: the builder inputs
`(id, constraints, extra keys)` of the patterns that are compiled. `none` = construction returns
the conversion error (`PatternFallback::Fail` and a pattern that cannot be converted). -/
def manyInputs (convert : Pat → Option (List (Constraint K P))) (extra : Pat → List K)
    (fallbackFail : Bool) : List Pat → Nat → Option (List (Nat × List (Constraint K P) × List K))
  | [], _ => some []
  | p :: ps, i =>
    match convert p with
    | none => if fallbackFail then none else manyInputs convert extra fallbackFail ps (i + 1)
    | some cs =>
      match manyInputs convert extra fallbackFail ps (i + 1) with
      | none => none
      | some rest => some ((i, cs, extra p) :: rest)

/-- The matcher: automaton, and the ids of the compiled patterns (`patterns` map keys). -/
structure Many (K P : Type) where
  automaton : Automaton K P
  ids : List Nat

/-- `try_from_patterns_with_det_heuristic` as an event replay; outer `none` = conversion error. -/
def manyBuild (convert : Pat → Option (List (Constraint K P))) (extra : Pat → List K)
    (toTree : List (Constraint K P) → Option (CTree (Constraint K P))) (req : K → List K)
    (fuel : Nat) (fallbackFail : Bool) (pats : List Pat) (evs : List Ev) :
    Option (R (Many K P)) :=
  match manyInputs convert extra fallbackFail pats 0 with
  | none => none
  | some inputs =>
    some (match Automaton.build toTree req fuel inputs evs with
      | .error e => .error e
      | .ok a => .ok ⟨a, inputs.map (·.1)⟩)

/-- `get_pattern(id).is_some()`. -/
def Many.hasPattern (m : Many K P) (i : Nat) : Bool := m.ids.contains i
/-- `n_patterns()`. -/
def Many.nPatterns (m : Many K P) : Nat := m.ids.length

/-- `find_matches(host)` collected. -/
def Many.findMatches (D : Domain K V P H M) (m : Many K P) (h : H) (fuel : Nat) :
    R (List (Match M)) :=
  (run D m.automaton h fuel).map (·.1)

end

/-! ### the three shipped instances -/

def strDomain : Domain Nat Nat CharPred (List Nat) StrPos :=
  { req := strReq, opts := strOpts, map := strPosMap, arity := CharPred.arity,
    check := fun p h vs => strCheck p h vs }

def matDomain : Domain MKey MVal CharPred MatHost MatPos :=
  { req := matReq, opts := matOpts, map := matPosMap, arity := CharPred.arity,
    check := fun p h vs => matCheck p h vs }

def pgDomain : Domain PGKey Nat PGPred PortGraph PGMap :=
  { req := pgReq, opts := pgOpts, map := assocMap, arity := PGPred.arity,
    check := fun p g vs => pgCheck p g vs }

/-- `StringManyMatcher`: build (conversion never fails) and match. -/
def strFindMatches (ps : List (List CharVar)) (evs : List Ev) (h : List Nat) (fuel : Nat) :
    R (List (Match StrPos)) :=
  match manyBuild (fun p => some (strConstraints p)) (fun _ => []) (charTree natLt) strReq fuel
      true ps evs with
  | none => .error (.panic "unreachable: string patterns always convert")
  | some (.error e) => .error e
  | some (.ok m) => m.findMatches strDomain h fuel

/-- `MatrixManyMatcher`. -/
def matFindMatches (ps : List MatPattern) (evs : List Ev) (h : MatHost) (fuel : Nat) :
    R (List (Match MatPos)) :=
  match manyBuild (fun p => some (matConstraints p)) (fun _ => []) (charTree mkeyLt) matReq fuel
      true ps evs with
  | none => .error (.panic "unreachable: matrix patterns always convert")
  | some (.error e) => .error e
  | some (.ok m) => m.findMatches matDomain h fuel

end Pm
