/-
Model/ManyTL.lean — `ManyMatcher::try_from_patterns_with_det_heuristic` replayed with the Rust
loop's replay `Automaton.buildTL` (Model/BuilderT.lean: lenient `make_det` = the code path, plus
the discipline of the loop c1T / c1C / c4T). Shared by Props/C07TL.lean and Props/C09TL.lean.
-/
import PmVerif.Model.ManyMatcher
import PmVerif.Model.BuilderT
namespace Pm

def manyBuildTL {K P Pat : Type} [DecidableEq K] [DecidableEq P]
    (convert : Pat → Option (List (Constraint K P))) (extra : Pat → List K)
    (toTree : List (Constraint K P) → Option (CTree (Constraint K P))) (req : K → List K)
    (fuel : Nat) (fallbackFail : Bool) (pats : List Pat) (evs : List Ev) :
    Option (R (Many K P)) :=
  match manyInputs convert extra fallbackFail pats 0 with
  | none => none
  | some inputs =>
    some (match Automaton.buildTL toTree req fuel inputs evs with
      | .error e => .error e
      | .ok a => .ok ⟨a, inputs.map (·.1)⟩)

end Pm
