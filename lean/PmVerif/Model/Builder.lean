/-
Model/Builder.lean — stage BUILD: `AutomatonBuilder` (src/automaton/builder.rs),
`ConstraintAutomaton::add_pattern` (modify.rs), as an *event replay*: wherever the Rust code
iterates a hash container or asks the user heuristic, the model takes the outcome from the
event log recorded by the `verif` hooks and checks that it is admissible (DESIGN §3.2).
Theorems quantify over all event sequences, i.e. over whatever any hasher or heuristic does.
-/
import PmVerif.Model.Automaton
import PmVerif.Model.Tree
namespace Pm

/-- Events of the build log (mirror of `VerifEvent` in src/verif.rs). -/
inductive Ev where
  | topo (s : Nat)
  | group (s : Nat) (ts : List Nat)
  | detAsk (s : Nat)
  | detYes (s : Nat)
  | merge (n : Nat) (nodes : List Nat)
  | iterEnd (s : Nat)
  deriving Repr, DecidableEq

namespace Automaton
variable {K P : Type} [DecidableEq K] [DecidableEq P]

abbrev Cons (K P : Type) := Constraint K P

/-- `ConstraintAutomaton::add_pattern(constraints, id, required_bindings)`. -/
def addPatternLoop (req : K → List K) (fuel : Nat) (a : Automaton K P) (s : Nat) (keys : List K) :
    List (Cons K P) → R (Automaton K P × Nat × List K)
  | [] => .ok (a, s, keys)
  | c :: cs =>
    match allMissingBindings req c.args keys fuel with
    | none => .error (.fuel "all_missing_bindings")
    | some more =>
      match a.addTransition s (some c) with
      | .error e => .error e
      | .ok (a, s') => addPatternLoop req fuel a s' (keys ++ more) cs

def addPattern (req : K → List K) (fuel : Nat) (a : Automaton K P) (cs : List (Cons K P))
    (pid : Nat) (extra : List K) : R (Automaton K P) :=
  match allMissingBindings req extra [] fuel with
  | none => .error (.fuel "all_missing_bindings")
  | some keys0 =>
    match addPatternLoop req fuel a a.root keys0 cs with
    | .error e => .error e
    | .ok (a, s, keys) => a.addMatch s pid keys

/-! ### `make_constraints_unique` -/

/-- Group the transitions of a state by their constraint, in order of first occurrence
(the `grouped_transitions` map; its iteration order is choice point c2). -/
def groupTransitions (a : Automaton K P) :
    List Nat → List (Option (Cons K P) × List Nat) → R (List (Option (Cons K P) × List Nat))
  | [], acc => .ok acc
  | t :: ts, acc =>
    match a.constraintOf t with
    | .error e => .error e
    | .ok c =>
      if acc.any (fun g => g.1 = c) then
        groupTransitions a ts (acc.map fun g => if g.1 = c then (g.1, g.2 ++ [t]) else g)
      else groupTransitions a ts (acc ++ [(c, [t])])

def removeTransitions (a : Automaton K P) :
    List Nat → Option (Option (Cons K P)) → R (Automaton K P × Option (Option (Cons K P)))
  | [], last => .ok (a, last)
  | t :: ts, _ =>
    match a.removeTransition t with
    | .error e => .error e
    | .ok (a, c) => removeTransitions a ts (some c)

def addMatches (a : Automaton K P) (s : Nat) : List (Nat × List K) → R (Automaton K P)
  | [] => .ok a
  | (pid, keys) :: ms =>
    match a.addMatch s pid keys with
    | .error e => .error e
    | .ok a => addMatches a s ms

/-- Copy transitions and matches of each old child onto the fused child, removing old children
that became unreachable. -/
def absorbChildren (a : Automaton K P) (newChild : Nat) : List Nat → R (Automaton K P)
  | [] => .ok a
  | old :: olds =>
    match a.cloneOutgoing newChild old with
    | .error e => .error e
    | .ok a =>
      match a.state old with
      | .error e => .error e
      | .ok w =>
        match a.addMatches newChild w.matches_ with
        | .error e => .error e
        | .ok a =>
          let a := if a.isUnreachable old then a.removeState old else a
          absorbChildren a newChild olds

/-- Fuse one group of transitions with equal constraints at `s` (body of the `for` loop of
`make_constraints_unique`). -/
def fuseGroup (a : Automaton K P) (s : Nat) (ts : List Nat) : R (Automaton K P) :=
  match mapR a.nextState ts with
  | .error e => .error e
  | .ok targets =>
    let oldChildren := dedup targets
    match a.removeTransitions ts none with
    | .error e => .error e
    | .ok (_, none) => .error (.panic "removed_transition.unwrap()")
    | .ok (a, some c) =>
      match a.addTransition s c with
      | .error e => .error e
      | .ok (a, newChild) => a.absorbChildren newChild oldChildren

/-- One pass of `make_constraints_unique(s)`: the groups with at least two members are fused
in the order given by the next `Group` events, which must be a permutation of them. -/
def fuseLogged (a : Automaton K P) (s : Nat) :
    List (List Nat) → List Ev → R (Automaton K P × List Ev)
  | [], evs => .ok (a, evs)
  | pending, .group s' ts :: evs =>
    if s' = s ∧ ts ∈ pending then
      match a.fuseGroup s ts with
      | .error e => .error e
      | .ok a => fuseLogged a s (pending.erase ts) evs
    else .error (.guard "c2: logged group is not one of the model's groups")
  | _ :: _, _ => .error (.guard "c2: missing Group event")

def makeConstraintsUnique (a : Automaton K P) (s : Nat) (evs : List Ev) :
    R (Automaton K P × List Ev) :=
  match a.allTransitions s with
  | .error e => .error e
  | .ok ts =>
    match a.groupTransitions ts [] with
    | .error e => .error e
    | .ok groups =>
      a.fuseLogged s ((groups.filter fun g => g.2.length ≥ 2).map (·.2)) evs

/-! ### `insert_constraint_tree` / `add_constraint_tree` -/

def appendEdges (a : Automaton K P) (src : Nat) (children : List Nat) (c : Option (Cons K P)) :
    List Nat → R (Automaton K P)
  | [] => .ok a
  | ind :: inds =>
    match children[ind]? with
    | none => .error (.panic "children[ind]: index out of bounds")
    | some child =>
      match a.appendEdge src child c with
      | .error e => .error e
      | .ok a => appendEdges a src children c inds

/-- The children loop of one popped `(tree_state, matcher_state)` of `add_constraint_tree`. -/
def treeChildren (tree : CTree (Cons K P)) (children : List Nat) (mstate : Nat) :
    Automaton K P → List (Cons K P × Nat) → List (Nat × Nat) → List Nat →
      R (Automaton K P × List (Nat × Nat) × List Nat)
  | a, [], stack, added => .ok (a, stack, added)
  | a, (c, childTree) :: rest, stack, added =>
    let step : R (Automaton K P × List (Nat × Nat)) :=
      if (tree.childrenAt childTree).length > 0 then
        match a.addTransition mstate (some c) with
        | .error e => .error e
        | .ok (a, cm) => .ok (a, stack ++ [(childTree, cm)])
      else .ok (a, stack)
    match step with
    | .error e => .error e
    | .ok (a, stack) =>
      let inds := tree.labelsAt childTree
      match a.appendEdges mstate children (some c) inds with
      | .error e => .error e
      | .ok a => treeChildren tree children mstate a rest stack (added ++ inds)

/-- `while let Some((tree_state, matcher_state)) = curr_states.pop()` (stack top = last). -/
def treeLoop (tree : CTree (Cons K P)) (children : List Nat) :
    Nat → Automaton K P → List (Nat × Nat) → List Nat → R (Automaton K P × List Nat)
  | _, a, [], added => .ok (a, added)
  | 0, _, _ :: _, _ => .error (.fuel "add_constraint_tree")
  | fuel + 1, a, st :: stack, added =>
    let all := st :: stack
    match all.getLast? with
    | none => .ok (a, added)
    | some (tstate, mstate) =>
      match treeChildren tree children mstate a (tree.childrenAt tstate) all.dropLast added with
      | .error e => .error e
      | .ok (a, stack', added') => treeLoop tree children fuel a stack' added'

def addConstraintTree (a : Automaton K P) (tree : CTree (Cons K P)) (s : Nat)
    (children : List Nat) (fuel : Nat) : R (Automaton K P × List Nat) :=
  let rootInds := tree.labelsAt 0
  match a.appendEdges s children none rootInds with
  | .error e => .error e
  | .ok a => treeLoop tree children fuel a [(0, s)] rootInds

/-- `insert_constraint_tree(state)`; returns the tree's `make_det` flag. `toTree` is
`P::to_constraints_tree` (`none` = it panicked or ran out of fuel). New states are reported so
the caller can log them as recently added (not needed by the replay). -/
def insertConstraintTree (toTree : List (Cons K P) → Option (CTree (Cons K P)))
    (a : Automaton K P) (s : Nat) (fuel : Nat) : R (Automaton K P × Bool) :=
  match a.state s with
  | .error e => .error e
  | .ok w =>
    if w.det then .ok (a, false)
    else if w.corder.isEmpty then .ok (a, false)
    else
      match a.drainConstraints s with
      | .error e => .error e
      | .ok (a, drained) =>
        let pairs := drained.filterMap fun (c, child) => c.map fun c => (c, child)
        let constraints := pairs.map (·.1)
        let children := pairs.map (·.2)
        match toTree constraints with
        | none => .error (.panic "to_constraints_tree")
        | some tree =>
          match a.addConstraintTree tree s children fuel with
          | .error e => .error e
          | .ok (a, added) =>
            let notAdded := (List.range constraints.length).filter fun i => !added.contains i
            if notAdded.isEmpty then .ok (a, tree.makeDet)
            else
              match a.addTransition s none with
              | .error e => .error e
              | .ok (a, failState) =>
                let rec addRest (a : Automaton K P) : List Nat → R (Automaton K P)
                  | [] => .ok a
                  | i :: is =>
                    match children[i]?, constraints[i]? with
                    | some child, some c =>
                      match a.appendEdge failState child (some c) with
                      | .error e => .error e
                      | .ok a => addRest a is
                    | _, _ => .error (.panic "children[i]")
                (addRest a notAdded).map (·, tree.makeDet)

/-! ### `make_det` -/

def makeDetLoop (a : Automaton K P) (failTransitions : List Nat)
    (failMatches : List (Nat × List K)) : List Nat → R (Automaton K P)
  | [] => .ok a
  | t :: ts =>
    match a.splitTarget t with
    | .error e => .error e
    | .ok (a, target) =>
      match a.appendCopies target failTransitions with
      | .error e => .error e
      | .ok a =>
        match a.addMatches target failMatches with
        | .error e => .error e
        | .ok a => makeDetLoop a failTransitions failMatches ts

/-- `make_det(state)` (after the F4 repair: besides the fallback state's transitions, the
patterns it accepts are copied onto every constraint child; `keepFailMatches = false` is the
pinned code, kept to document the finding). -/
def makeDetWith (keepFailMatches : Bool) (a : Automaton K P) (s : Nat) : R (Automaton K P) :=
  match a.setDeterministic s with
  | .error e => .error e
  | .ok (a, wasDet) =>
    if wasDet then .ok a
    else
      match a.failNextState s with
      | .error e => .error e
      | .ok none => .ok a
      | .ok (some failState) =>
        match a.allTransitions failState, a.corderOf s, a.state failState with
        | .ok failTs, .ok cts, .ok fw =>
          -- guard (DESIGN §3.1): the Rust code silently assumes that the constraint children
          -- of the state being determinised are not deterministic themselves (they have not
          -- been normalised yet); otherwise the fallback transitions copied onto them could be
          -- skipped there.
          let childDet := cts.any fun t =>
            match a.g.edge? t with
            | some e => (match a.g.weight? e.dst with | some w => w.det | none => false)
            | none => false
          if childDet then .error (.guard "make_det: a constraint child is already deterministic")
          else a.makeDetLoop failTs (if keepFailMatches then fw.matches_ else []) cts
        | .error e, _, _ => .error e
        | _, .error e, _ => .error e
        | _, _, .error e => .error e

def makeDet (a : Automaton K P) (s : Nat) : R (Automaton K P) := makeDetWith true a s

/-- `make_det` exactly as the Rust code runs it, i.e. *without* the model guard on
deterministic constraint children (the builder theorems are about the guarded `makeDet`; the
two agree whenever the guarded one succeeds). -/
def makeDetL (a : Automaton K P) (s : Nat) : R (Automaton K P) :=
  match a.setDeterministic s with
  | .error e => .error e
  | .ok (a, wasDet) =>
    if wasDet then .ok a
    else
      match a.failNextState s with
      | .error e => .error e
      | .ok none => .ok a
      | .ok (some failState) =>
        match a.allTransitions failState, a.corderOf s, a.state failState with
        | .ok failTs, .ok cts, .ok fw => a.makeDetLoop failTs fw.matches_ cts
        | .error e, _, _ => .error e
        | _, .error e, _ => .error e
        | _, _, .error e => .error e

/-! ### `try_merge_new_nodes` -/

/-- `state_tuple` up to the iteration order of the accepted pattern ids. -/
def tupleTransitions (a : Automaton K P) (s : Nat) : R (List (Option (Cons K P) × Nat)) :=
  match a.allTransitions s with
  | .error e => .error e
  | .ok ts => mapR (fun t =>
      match a.constraintOf t, a.nextState t with
      | .ok c, .ok n => .ok (c, n)
      | .error e, _ => .error e
      | _, .error e => .error e) ts

def sameTuple (a : Automaton K P) (s s' : Nat) : R Bool :=
  match a.state s, a.state s', a.tupleTransitions s, a.tupleTransitions s' with
  | .ok w, .ok w', .ok ts, .ok ts' =>
    let ids := w.matches_.map (·.1)
    let ids' := w'.matches_.map (·.1)
    .ok (w.det == w'.det && ids.all ids'.contains && ids'.all ids.contains && ts == ts')
  | .error e, _, _, _ => .error e
  | _, .error e, _, _ => .error e
  | _, _, .error e, _ => .error e
  | _, _, _, .error e => .error e

/-- Nodes reachable from `s` (including `s`) in the live graph. -/
def reachable (a : Automaton K P) : Nat → List Nat → List Nat → List Nat
  | 0, _, seen => seen
  | _, [], seen => seen
  | fuel + 1, n :: work, seen =>
    if seen.contains n then reachable a fuel work seen
    else reachable a fuel ((a.g.succs n) ++ work) (n :: seen)

def pathExists (a : Automaton K P) (s s' : Nat) : Bool :=
  let bound := a.g.nodes.length * (a.g.edges.length + 2) + 2
  (a.reachable bound [s] []).contains s'

def mergeLoop (a : Automaton K P) (first : Nat) : List Nat → R (Automaton K P)
  | [] => .ok a
  | n :: ns =>
    match a.moveIncoming first n with
    | .error e => .error e
    | .ok a => mergeLoop (a.removeState n) first ns

/-- One `Merge(node, merge_nodes)` event: admissibility (c4) and the merge itself. -/
def doMerge (a : Automaton K P) (node : Nat) (nodes : List Nat) : R (Automaton K P) :=
  match nodes with
  | [] | [_] => .ok a
  | first :: rest =>
    if !nodes.contains node then .error (.guard "c4: merge set does not contain the node")
    else if !(decide nodes.Nodup) then .error (.guard "c4: merge set has duplicates")
    else
      match mapR (fun n => a.sameTuple node n) nodes with
      | .error e => .error e
      | .ok same =>
        if !same.all id then .error (.guard "c4: merge set member with a different state tuple")
        else if nodes.any (fun x => nodes.any fun y => x ≠ y ∧ a.pathExists x y) then
          .error (.guard "c4: path between merged states")
        else if nodes.contains a.root then .error (.guard "c4: the root is in a merge set")
        else a.mergeLoop first rest

def mergesLogged (a : Automaton K P) : List Ev → R (Automaton K P × List Ev)
  | .merge n nodes :: evs =>
    match a.doMerge n nodes with
    | .error e => .error e
    | .ok a => mergesLogged a evs
  | evs => .ok (a, evs)

/-! ### the main loop of `finish_with_det_heuristic` -/

/-- One iteration of the main loop for the emitted state `s`; consumes its events. -/
def iteration (toTree : List (Cons K P) → Option (CTree (Cons K P))) (fuel : Nat)
    (a : Automaton K P) (s : Nat) (evs : List Ev) : R (Automaton K P × List Ev) :=
  if !a.g.containsNode s then .error (.guard "c1: emitted state does not exist") else
  match a.makeConstraintsUnique s evs with
  | .error e => .error e
  | .ok (a, evs) =>
    match insertConstraintTree toTree a s fuel with
    | .error e => .error e
    | .ok (a, treeDet) =>
      match a.makeConstraintsUnique s evs with
      | .error e => .error e
      | .ok (a, evs) =>
        let afterDet : R (Automaton K P × List Ev) :=
          if treeDet then
            match evs with
            | .detAsk s' :: .detYes s'' :: evs' =>
              if s' = s ∧ s'' = s then (a.makeDet s).map (·, evs')
              else .error (.guard "c5: DetAsk/DetYes for another state")
            | .detAsk s' :: evs' =>
              if s' = s then .ok (a, evs') else .error (.guard "c5: DetAsk for another state")
            | _ => .error (.guard "c5: missing DetAsk event")
          else .ok (a, evs)
        match afterDet with
        | .error e => .error e
        | .ok (a, evs) =>
          match a.mergesLogged evs with
          | .error e => .error e
          | .ok (a, .iterEnd s' :: evs) =>
            if s' = s then .ok (a, evs) else .error (.guard "IterEnd for another state")
          | .ok _ => .error (.guard "missing IterEnd event")

def mainLoop (toTree : List (Cons K P) → Option (CTree (Cons K P))) (fuel : Nat) :
    Nat → Automaton K P → List Ev → R (Automaton K P)
  | _, a, [] => .ok a
  | 0, _, _ :: _ => .error (.fuel "main loop")
  | n + 1, a, .topo s :: evs =>
    match iteration toTree fuel a s evs with
    | .error e => .error e
    | .ok (a, evs) => mainLoop toTree fuel n a evs
  | _, _, _ :: _ => .error (.guard "expected a Topo event")

/-! ### lenient variants (no `make_det` guard): what the Rust code does, used for the exact replay -/

/-- `iteration` without the `make_det` guard. -/
def iterationL (toTree : List (Cons K P) → Option (CTree (Cons K P))) (fuel : Nat)
    (a : Automaton K P) (s : Nat) (evs : List Ev) : R (Automaton K P × List Ev) :=
  if !a.g.containsNode s then .error (.guard "c1: emitted state does not exist") else
  match a.makeConstraintsUnique s evs with
  | .error e => .error e
  | .ok (a, evs) =>
    match insertConstraintTree toTree a s fuel with
    | .error e => .error e
    | .ok (a, treeDet) =>
      match a.makeConstraintsUnique s evs with
      | .error e => .error e
      | .ok (a, evs) =>
        let afterDet : R (Automaton K P × List Ev) :=
          if treeDet then
            match evs with
            | .detAsk s' :: .detYes s'' :: evs' =>
              if s' = s ∧ s'' = s then (a.makeDetL s).map (·, evs')
              else .error (.guard "c5: DetAsk/DetYes for another state")
            | .detAsk s' :: evs' =>
              if s' = s then .ok (a, evs') else .error (.guard "c5: DetAsk for another state")
            | _ => .error (.guard "c5: missing DetAsk event")
          else .ok (a, evs)
        match afterDet with
        | .error e => .error e
        | .ok (a, evs) =>
          match a.mergesLogged evs with
          | .error e => .error e
          | .ok (a, .iterEnd s' :: evs) =>
            if s' = s then .ok (a, evs) else .error (.guard "IterEnd for another state")
          | .ok _ => .error (.guard "missing IterEnd event")

def mainLoopL (toTree : List (Cons K P) → Option (CTree (Cons K P))) (fuel : Nat) :
    Nat → Automaton K P → List Ev → R (Automaton K P)
  | _, a, [] => .ok a
  | 0, _, _ :: _ => .error (.fuel "main loop")
  | n + 1, a, .topo s :: evs =>
    match iterationL toTree fuel a s evs with
    | .error e => .error e
    | .ok (a, evs) => mainLoopL toTree fuel n a evs
  | _, _, _ :: _ => .error (.guard "expected a Topo event")

/-! ### `populate_scopes` -/

/-- A topological order of the live states (Kahn); `none` = cycle (`expect("Graph should be
acyclic")`). -/
def topoOrder (a : Automaton K P) : Option (List Nat) :=
  let live := a.g.nodeIndices
  let rec go (fuel : Nat) (done : List Nat) : Option (List Nat) :=
    match fuel with
    | 0 => if done.length == live.length then some done else none
    | f + 1 =>
      let next := live.filter fun n => !done.contains n && (a.g.preds n).all done.contains
      if next.isEmpty then (if done.length == live.length then some done else none)
      else go f (done ++ next)
  go (live.length + 1) []

def reduceOpt {α} (f : α → α → α) : List α → Option α
  | [] => none
  | x :: xs => some (xs.foldl f x)

/-- Forward scopes: intersection (keeping the order of the first) over incoming edges, in
in-adjacency order, of parent scope ++ missing bindings of the edge's constraint. -/
def forwardScopes (req : K → List K) (fuel : Nat) (a : Automaton K P) :
    List Nat → List (Nat × List K) → R (List (Nat × List K))
  | [], acc => .ok acc
  | n :: ns, acc =>
    let perEdge : R (List (List K)) := mapR (fun (es : Nat × Nat) =>
      let parentScope := (alGet acc es.2).getD []
      match a.constraintOf es.1 with
      | .error e => .error e
      | .ok c =>
        let args := match c with | some c => c.args | none => []
        match allMissingBindings req args parentScope fuel with
        | none => .error (.fuel "all_missing_bindings")
        | some more => .ok (parentScope ++ more)) (a.g.inEdges n)
    match perEdge with
    | .error e => .error e
    | .ok scopes =>
      let scope := (reduceOpt (fun x y => x.filter fun k => y.contains k) scopes).getD []
      forwardScopes req fuel a ns (acc ++ [(n, scope)])

/-- Backward scopes (as lists used as sets): union over outgoing edges of the child's backward
scope and the keys of the patterns accepted at the child. -/
def backwardScopes (a : Automaton K P) :
    List Nat → List (Nat × List K) → R (List (Nat × List K))
  | [], acc => .ok acc
  | n :: ns, acc =>
    let perEdge : R (List (List K)) := mapR (fun (es : Nat × Nat) =>
      match a.state es.2 with
      | .error e => .error e
      | .ok w => .ok ((alGet acc es.2).getD [] ++ w.matches_.flatMap (·.2))) (a.g.outEdges n)
    match perEdge with
    | .error e => .error e
    | .ok scopes => backwardScopes a ns (acc ++ [(n, scopes.flatten)])

def setScopes (req : K → List K) (fuel : Nat) (fwd bwd : List (Nat × List K)) :
    Automaton K P → List Nat → R (Automaton K P)
  | a, [] => .ok a
  | a, n :: ns =>
    match alGet fwd n, alGet bwd n with
    | some f, some b =>
      let scope := f.filter fun k => b.contains k
      match a.constraintsAt n with
      | .error e => .error e
      | .ok cs =>
        match allMissingBindings req (cs.flatMap (·.args)) scope fuel with
        | none => .error (.fuel "all_missing_bindings")
        | some more =>
          match a.modifyState n fun w => { w with scope := scope ++ more } with
          | .error e => .error e
          | .ok a => setScopes req fuel fwd bwd a ns
    | _, _ => .error (.panic "forward_scopes.remove(&node).unwrap()")

def populateScopes (req : K → List K) (fuel : Nat) (a : Automaton K P) : R (Automaton K P) :=
  match a.topoOrder with
  | none => .error (.panic "Graph should be acyclic")
  | some order =>
    match forwardScopes req fuel a order [], backwardScopes a order.reverse [] with
    | .ok fwd, .ok bwd => setScopes req fuel fwd bwd a a.g.nodeIndices
    | .error e, _ => .error e
    | _, .error e => .error e

/-- `finish_with_det_heuristic` as an event replay. -/
def finish (toTree : List (Cons K P) → Option (CTree (Cons K P))) (req : K → List K)
    (fuel : Nat) (a : Automaton K P) (evs : List Ev) : R (Automaton K P) :=
  match mainLoop toTree fuel evs.length a evs with
  | .error e => .error e
  | .ok a => populateScopes req fuel a

def finishL (toTree : List (Cons K P) → Option (CTree (Cons K P))) (req : K → List K)
    (fuel : Nat) (a : Automaton K P) (evs : List Ev) : R (Automaton K P) :=
  match mainLoopL toTree fuel evs.length a evs with
  | .error e => .error e
  | .ok a => populateScopes req fuel a

/-- `AutomatonBuilder::from_constraints`-style construction used by `ManyMatcher`: patterns are
`(id, constraints, extra required keys)`. -/
def addPatterns (req : K → List K) (fuel : Nat) :
    Automaton K P → List (Nat × List (Cons K P) × List K) → R (Automaton K P)
  | a, [] => .ok a
  | a, (pid, cs, extra) :: ps =>
    match addPattern req fuel a cs pid extra with
    | .error e => .error e
    | .ok a => addPatterns req fuel a ps

def build (toTree : List (Cons K P) → Option (CTree (Cons K P))) (req : K → List K)
    (fuel : Nat) (patterns : List (Nat × List (Cons K P) × List K)) (evs : List Ev) :
    R (Automaton K P) :=
  match addPatterns req fuel new patterns with
  | .error e => .error e
  | .ok a => finish toTree req fuel a evs

/-- The build exactly as the Rust code runs it (no `make_det` guard). -/
def buildL (toTree : List (Cons K P) → Option (CTree (Cons K P))) (req : K → List K)
    (fuel : Nat) (patterns : List (Nat × List (Cons K P) × List K)) (evs : List Ev) :
    R (Automaton K P) :=
  match addPatterns req fuel new patterns with
  | .error e => .error e
  | .ok a => finishL toTree req fuel a evs

end Automaton
end Pm
