/-
Model/Constraint.lean — stage CON: `Constraint::try_new`, `try_binary_from_triple`,
`is_satisfied`, `DetHeuristic::make_det` (src/constraint.rs).
-/
import PmVerif.Model.BindMap
namespace Pm

structure Constraint (K P : Type) where
  pred : P
  args : List K
  deriving Repr, DecidableEq

/-- `InvalidConstraint` as far as the modelled functions produce it. -/
inductive ConErr (K : Type) where
  | invalidArity (predArity argsArity : Nat)
  | unboundVariable (k : K)
  deriving Repr, DecidableEq

section
variable {K V P M H : Type}

/-- `Constraint::try_new`. -/
def tryNew (arity : P → Nat) (p : P) (args : List K) : Except (ConErr K) (Constraint K P) :=
  if args.length ≠ arity p then .error (.invalidArity (arity p) args.length)
  else .ok ⟨p, args⟩

/-- `Constraint::try_binary_from_triple`. -/
def tryBinaryFromTriple (arity : P → Nat) (l : K) (p : P) (r : K) :
    Except (ConErr K) (Constraint K P) :=
  tryNew arity p [l, r]

/-- Resolve the argument keys in order; stop at the first unbound one. -/
def resolveArgs (get : M → K → Option V) (m : M) : List K → Except (ConErr K) (List V)
  | [] => .ok []
  | k :: ks =>
    match get m k with
    | none => .error (.unboundVariable k)
    | some v =>
      match resolveArgs get m ks with
      | .error e => .error e
      | .ok vs => .ok (v :: vs)

/-- `Constraint::is_satisfied`, instrumented: the second component is the log of argument
vectors the predicate was invoked on (empty when resolution fails). `check` returns `none`
when the Rust predicate panics (wrong number of arguments). -/
def isSatisfiedLog (get : M → K → Option V) (check : P → H → List V → Option Bool)
    (c : Constraint K P) (h : H) (m : M) :
    Except (ConErr K) (Option Bool) × List (List V) :=
  match resolveArgs get m c.args with
  | .error e => (.error e, [])
  | .ok vs => (.ok (check c.pred h vs), [vs])

def isSatisfied (get : M → K → Option V) (check : P → H → List V → Option Bool)
    (c : Constraint K P) (h : H) (m : M) : Except (ConErr K) (Option Bool) :=
  (isSatisfiedLog get check c h m).1

/-- `.is_satisfied(host, m).unwrap_or(false)` as used by the traversal and the baseline:
`none` = the predicate panicked. -/
def satOrFalse (get : M → K → Option V) (check : P → H → List V → Option Bool)
    (c : Constraint K P) (h : H) (m : M) : Option Bool :=
  match isSatisfied get check c h m with
  | .error _ => some false
  | .ok r => r

end

/-- `DetHeuristic`; `custom` is the sequence of answers its closure gives (DESIGN §6). -/
inductive DetHeuristic where
  | default
  | never
  | custom (answers : List Bool)
  deriving Repr

/-- `DetHeuristic::make_det`: returns the answer and the heuristic's next state. An exhausted
`custom` answers `false`. -/
def DetHeuristic.makeDet : DetHeuristic → Bool × DetHeuristic
  | .default => (true, .default)
  | .never => (false, .never)
  | .custom [] => (false, .custom [])
  | .custom (a :: as) => (a, .custom as)

end Pm
