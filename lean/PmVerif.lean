import PmVerif.Model.Basic
import PmVerif.Model.Indexing
import PmVerif.Model.BindMap
import PmVerif.Model.Constraint
