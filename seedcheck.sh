#!/bin/bash
# seedcheck.sh <ID> [features] — confirm a seeded change (worktree /tmp/seed/<ID>) and run the checks against it.
# 1. with the change: existing suite passes, demo fails; 2. without it: demo passes;
# 3. apply to /repo, run the given checks (env CHECKS, default: the property itself), undo.
ID=$1; FEAT=${2:-}; WT=/tmp/seed/$ID; OUT=/verif/seeded/$ID
mkdir -p $OUT
cp /tmp/seed/$ID.patch.diff $OUT/patch.diff; cp /tmp/seed/$ID.demo.rs $OUT/demo.rs; cp /tmp/seed/$ID.meta.txt $OUT/meta_agent.txt
cd $WT
FF=""; [ -n "$FEAT" ] && FF="--features $FEAT"
echo "== suite with change"; S1=$(cargo test --offline 2>&1 | grep -E "^test result" | head -1); echo "$S1"
echo "== demo with change"; D1=$(cargo test --offline $FF --test seeded_demo 2>&1 | grep -E "^test result" | head -1); echo "$D1"
git diff -- src > /tmp/seed/$ID.cur.diff; git checkout -q -- src   # (no git stash: refs/stash is shared by all worktrees)
echo "== demo without change"; D0=$(cargo test --offline $FF --test seeded_demo 2>&1 | grep -E "^test result" | head -1); echo "$D0"
git apply /tmp/seed/$ID.cur.diff
cd /verif
git -C /repo apply $OUT/patch.diff || { echo "patch does not apply to /repo"; exit 1; }
RES=""
for c in ${CHECKS:-$ID}; do
  R=$(python3 check.py $c --tier quick 2>&1 | grep -E "^(VIOLATION|OK)" | head -1 | cut -c1-160); echo "$c: $R"; RES="$RES$c: $R\n"
done
git -C /repo checkout -- . 
git -C /repo status --short | head -3
python3 - "$ID" "$S1" "$D1" "$D0" "$RES" <<'PY'
import json,sys
id_,s1,d1,d0,res=sys.argv[1:6]
meta={"id":id_,"breaks_property":id_.split('-')[0],"needs_to_manifest":open(f"/verif/seeded/{id_}/meta_agent.txt").read()[:1500],
 "confirmed":{"existing_suite_with_change":s1,"demo_with_change":d1,"demo_without_change":d0},
 "checks_run_against_it":[l for l in res.split("\\n") if l]}
json.dump(meta,open(f"/verif/seeded/{id_}/meta.json","w"),indent=1)
PY
