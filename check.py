#!/usr/bin/env python3
"""check.py — entry point of the portmatching verification machinery (see DESIGN.md).

  python3 check.py --setup                      build Lean library, driver and harness
  python3 check.py Cxx --tier quick|thorough    decide property Cxx on /repo's working tree
  python3 check.py Cxx --replay <path>          re-run a stored failing record

A check = (1) kernel re-check of the property's theorems (`lake build`), (2) axiom audit and
source scan, (3) rebuild of the Rust harness against /repo, (4) correspondence run of the
stages in the property's cone (real code vs executable Lean model), (5) evaluation of the
property's executable oracle on the implementation's outputs, (6) evidence + verdict.
Exit 0 iff everything explored held; otherwise exit 1 and print
`VIOLATION property=<id> replay=<path>`.
"""
import hashlib
import json
import os
import re
import subprocess
import sys
import time

ROOT = os.path.dirname(os.path.abspath(__file__))
LEAN = os.path.join(ROOT, "lean")
HARNESS = os.path.join(ROOT, "harness")
TARGET = os.path.join(ROOT, ".cache", "target")
HBIN = os.path.join(TARGET, "release", "pm-harness")
DRIVER = os.path.join(LEAN, ".lake", "build", "bin", "pmdriver")
EVID = os.path.join(ROOT, "evidence")
REPLAYS = os.path.join(ROOT, "replays")
REPO = "/repo"
CACHE = os.path.join(ROOT, ".cache")

ALLOWED_AXIOMS = {"propext", "Classical.choice", "Quot.sound"}
FORBIDDEN = re.compile(
    r"\b(sorry|admit|native_decide|bv_decide|implemented_by|unsafe)\b|^\s*axiom\s|maxHeartbeats\s+0"
)

sys.path.insert(0, ROOT)
from props import PROPS  # noqa: E402  (per-property cones, stages, notes)


def env():
    e = dict(os.environ)
    e["CARGO_NET_OFFLINE"] = "true"
    e["CARGO_TARGET_DIR"] = TARGET
    return e


def run(cmd, cwd=None, inp=None, timeout=None):
    return subprocess.run(
        cmd, cwd=cwd, input=inp, capture_output=True, text=True, env=env(), timeout=timeout
    )


# ----------------------------------------------------------------------------- builds


def build_lean(targets):
    """lake build of the given targets; returns (ok, log)."""
    r = run(["lake", "build"] + targets, cwd=LEAN)
    return r.returncode == 0, (r.stdout + r.stderr)


def build_harness():
    os.makedirs(TARGET, exist_ok=True)
    r = run(["cargo", "build", "--release", "--offline", "--quiet"], cwd=HARNESS)
    return r.returncode == 0, (r.stdout + r.stderr)


def strip_comments(src):
    # remove /- ... -/ (nested) and -- ... comments
    out = []
    i, depth, n = 0, 0, len(src)
    while i < n:
        if src.startswith("/-", i):
            depth += 1
            i += 2
        elif depth and src.startswith("-/", i):
            depth -= 1
            i += 2
        elif depth:
            if src[i] == "\n":
                out.append("\n")
            i += 1
        elif src.startswith("--", i):
            while i < n and src[i] != "\n":
                i += 1
        else:
            out.append(src[i])
            i += 1
    return "".join(out)


def lean_sources(subdirs=("PmVerif",)):
    files = []
    for sd in subdirs:
        for dp, _, fns in os.walk(os.path.join(LEAN, sd)):
            for fn in fns:
                if fn.endswith(".lean"):
                    files.append(os.path.join(dp, fn))
    return sorted(files)


def source_scan():
    """forbidden constructs in anything a theorem can mention (PmVerif/**)."""
    hits = []
    for f in lean_sources():
        txt = strip_comments(open(f).read())
        for ln, line in enumerate(txt.splitlines(), 1):
            if FORBIDDEN.search(line):
                hits.append(f"{os.path.relpath(f, LEAN)}:{ln}: {line.strip()[:100]}")
    return hits


def theorems_of(module_file):
    p = os.path.join(LEAN, module_file)
    if not os.path.exists(p):
        return []
    txt = strip_comments(open(p).read())
    return re.findall(r"^\s*theorem\s+([A-Za-z0-9_.']+)", txt, flags=re.M)


def axiom_audit(pid, thms, modules):
    """#print axioms on every property theorem; returns (ok, {thm: [axioms]}, log)."""
    if not thms:
        return True, {}, ""
    os.makedirs(os.path.join(ROOT, ".cache", "audit"), exist_ok=True)
    f = os.path.join(ROOT, ".cache", "audit", f"Audit_{pid}.lean")
    with open(f, "w") as fh:
        for m in modules:
            fh.write(f"import {m}\n")
        fh.write("open Pm\n")
        for t in thms:
            fh.write(f"#print axioms {t}\n")
    r = run(["lake", "env", "lean", f], cwd=LEAN)
    out = r.stdout + r.stderr
    res = {}
    ok = r.returncode == 0
    # messages: "'Pm.foo' depends on axioms: [a, b]" or "'Pm.foo' does not depend on any axioms"
    for m in re.finditer(
        r"^'([^\n]+?)' (does not depend on any axioms|depends on axioms: \[([^\]]*)\])", out, flags=re.S | re.M
    ):
        name = m.group(1)
        axs = [] if m.group(3) is None else [a.strip() for a in m.group(3).replace("\n", " ").split(",") if a.strip()]
        res[name] = axs
        if any(a not in ALLOWED_AXIOMS for a in axs):
            ok = False
    if len(res) != len(thms):
        ok = False
    return ok, res, out


# ----------------------------------------------------------------------------- correspondence


def run_stage(stage, tier, seed, extra_args=()):
    """harness stage | driver. Returns dict with records, verdict lines, counters."""
    args = [HBIN, stage] + (["--thorough"] if tier == "thorough" else []) + list(extra_args)
    e = env()
    e["VERIF_SEED"] = str(seed)
    # a stage that does not finish is reported as non-termination (C08): the harness traces
    # the input of the case it is working on to stderr
    e["PM_TRACE"] = "1"
    limit = 900 if tier == "quick" else 7200
    timed_out = False
    try:
        h = subprocess.run(args, capture_output=True, text=True, env=e, timeout=limit)
        out, err, rc = h.stdout, h.stderr, h.returncode
    except subprocess.TimeoutExpired as te:
        timed_out = True
        out = (te.stdout or b"").decode(errors="replace") if isinstance(te.stdout, bytes) else (te.stdout or "")
        err = (te.stderr or b"").decode(errors="replace") if isinstance(te.stderr, bytes) else (te.stderr or "")
        rc = -9
        out = out[: out.rfind("\n") + 1]
    recs = out.splitlines()
    traces = [l for l in err.splitlines() if l.startswith("TRACE E2E") or l.startswith("TRACE ")]
    info = {
        "stage": stage,
        "records": len(recs),
        "harness_rc": rc,
        "harness_err": "\n".join(l for l in err.splitlines() if not l.startswith("TRACE"))[-2000:],
        "timed_out": timed_out,
        "last_case_started": ([l for l in traces if l.startswith("TRACE E2E")] or [""])[-1][:3000] if timed_out else "",
    }
    class _H:  # keep the rest of the function unchanged
        pass
    h = _H()
    h.stdout, h.returncode = out, rc
    verdicts, drc, derr = run_driver_parallel(recs, e)
    info["driver_rc"] = drc
    info["driver_err"] = derr[-2000:]
    return info, recs, verdicts


def run_driver_parallel(recs, e):
    """The driver answers one line per record and keeps no state between records, so a long
    stream is cut into consecutive chunks judged by several driver processes at once; the
    verdicts are concatenated in the original order."""
    n = len(recs)
    k = max(1, min(os.cpu_count() or 4, 16, n // 2000))
    if k == 1:
        d = subprocess.run([DRIVER], input="\n".join(recs) + ("\n" if recs else ""), capture_output=True, text=True, env=e)
        return d.stdout.splitlines(), d.returncode, d.stderr
    size = (n + k - 1) // k
    chunks = [recs[i:i + size] for i in range(0, n, size)]
    procs = []
    for ch in chunks:
        pr = subprocess.Popen([DRIVER], stdin=subprocess.PIPE, stdout=subprocess.PIPE, stderr=subprocess.PIPE, text=True, env=e)
        procs.append((pr, ch))
    import threading
    outs = [None] * len(procs)

    def feed(i, pr, ch):
        outs[i] = pr.communicate("\n".join(ch) + "\n")

    ths = [threading.Thread(target=feed, args=(i, pr, ch)) for i, (pr, ch) in enumerate(procs)]
    for t in ths:
        t.start()
    for t in ths:
        t.join()
    verdicts, rc, err = [], 0, ""
    for (pr, ch), (so, se) in zip(procs, outs):
        lines = so.splitlines()
        verdicts.extend(lines)
        if pr.returncode != 0 or len(lines) != len(ch):
            rc = pr.returncode or 1
        err += se or ""
    return verdicts, rc, err


def run_driver_on(lines):
    d = subprocess.run([DRIVER], input="\n".join(lines) + "\n", capture_output=True, text=True, env=env())
    return d.stdout.splitlines()


def classify(recs, verdicts, pid, spec):
    """Split verdict lines into items relevant for property `pid`.
    A verdict line is `ok flags…` or a ` ;; `-separated list of items
    `ORACLE-FAIL <Cxx> …` / `DISAGREE <STAGE.sub> …` / `KNOWN <Cxx> <signature>` (the first item of
    a KNOWN line carries the flags)."""
    out = {"ok": [], "disagree": [], "oracle": [], "bad": [], "known": [], "other": []}
    own = spec.get("oracle_ids", [pid])
    cone = spec.get("cone", ["*"])
    for i, v in enumerate(verdicts):
        rec = recs[i] if i < len(recs) else ""
        if v.startswith("ok"):
            out["ok"].append((i, rec, v))
            continue
        items = v.split(" ;; ")
        relevant = False
        flags_item = None
        for it in items:
            t = it.split()
            if not t:
                continue
            if t[0] == "ORACLE-FAIL" and len(t) > 1:
                if t[1] in own:
                    out["oracle"].append((i, rec, it))
                    relevant = True
                else:
                    out["other"].append((i, rec, it))
            elif t[0] == "DISAGREE" and len(t) > 1:
                if "*" in cone or any(t[1].startswith(c) for c in cone):
                    out["disagree"].append((i, rec, it))
                    relevant = True
                else:
                    out["other"].append((i, rec, it))
            elif t[0] == "KNOWN" and len(t) > 2 and re.fullmatch(r"C\d+", t[1]):
                if t[1] in own:
                    out["known"].append((i, rec, it))
                else:
                    out["other"].append((i, rec, it))
            elif t[0] == "KNOWN":
                flags_item = it
            else:
                out["bad"].append((i, rec, it))
                relevant = True
        if not relevant:
            # nothing in this line concerns this property: count the record as explored
            out["ok"].append((i, rec, "ok " + " ".join((flags_item or "").split()[1:])))
    return out


def run_repro(tier, seed):
    """C17: three separate processes (plain / different allocation history / different
    environment size and stack) must print byte-identical digests (number of states, hash of the
    rendered automaton, hash of the event log, hash of the exact match sequence)."""
    outs = []
    variants = [
        ("plain", [], {}),
        ("warmup", ["--warmup"], {}),
        ("env", [], {"PM_PADDING": "x" * 4099, "RUST_MIN_STACK": "33554432", "MALLOC_ARENA_MAX": "1"}),
    ]
    for name, extra, envx in variants:
        e = env()
        e["VERIF_SEED"] = str(seed)
        e.update(envx)
        args = [HBIN, "cross.repro"] + (["--thorough"] if tier == "thorough" else []) + extra
        r = subprocess.run(args, capture_output=True, text=True, env=e)
        outs.append((name, r.returncode, r.stdout))
    base = outs[0][2].splitlines()
    problems = []
    for name, rc, out in outs:
        if rc != 0:
            problems.append({"process": name, "what": f"exit status {rc}"})
        lines = out.splitlines()
        if lines != base:
            diffs = [(i, a, b) for i, (a, b) in enumerate(zip(base, lines)) if a != b][:3]
            problems.append({"process": name, "what": "digest differs from the plain process", "first_differences": diffs,
                             "lengths": [len(base), len(lines)]})
        for ln in lines:
            if "differs" in ln or "failed" in ln:
                problems.append({"process": name, "what": ln})
                break
    return base, problems


def static_scan_nondeterminism():
    """informational: std hash containers / addresses in non-test library code"""
    pats = re.compile(r"std::collections::(HashMap|HashSet)|RandomState|DefaultHasher|as \*const|\{:p\}")
    hits = []
    for dp, _, fns in os.walk(os.path.join(REPO, "src")):
        for fn in fns:
            if fn.endswith(".rs"):
                txt = open(os.path.join(dp, fn)).read()
                body = txt.split("#[cfg(test)]")[0]
                for ln, line in enumerate(body.splitlines(), 1):
                    if pats.search(line):
                        hits.append(f"{os.path.relpath(os.path.join(dp, fn), REPO)}:{ln}: {line.strip()[:100]}")
    return hits


def load_known_findings():
    p = os.path.join(ROOT, "known_findings.json")
    if not os.path.exists(p):
        return {"findings": [], "fixed": []}
    return json.load(open(p))


def write_replay(pid, kind, payload):
    os.makedirs(REPLAYS, exist_ok=True)
    h = hashlib.sha256(json.dumps(payload, sort_keys=True).encode()).hexdigest()[:12]
    p = os.path.join(REPLAYS, f"{pid}-{kind}-{h}.json")
    with open(p, "w") as fh:
        json.dump(payload, fh, indent=1)
    return p


def source_drift(cone):
    """Anchored Rust items (anchors_src.py: one per modelled function, with the Lean definitions
    that model it) whose source text differs from the hash recorded in anchors.json, restricted to
    the property's cone. Drift is not a violation; it widens the correspondence run."""
    import anchors_src
    alias = {"PGP": "PG", "PGI": "PG", "TAB": "IDX"}
    cone = {alias.get(c, c) for c in cone}
    every = anchors_src.drift()
    mine = [d for d in every if "*" in cone or d[1] in cone or d[1] == "*"
            or (d[1] in ("IDX", "MAP", "TREE", "TOPO", "MANY") and ("BUILD" in cone or "RUN" in cone))]
    widen = set()
    for _, st, _ in mine:
        widen.update(anchors_src.STAGE_RUNS.get(st, []))
    return {"items_anchored": anchors_src.summary(), "drifted_in_cone": [f"{k}: {w}" for k, _, w in mine],
            "drifted_total": len(every), "widened_stages": sorted(widen)}, widen


# ----------------------------------------------------------------------------- main check


def check(pid, tier, seed):
    t0 = time.time()
    spec = PROPS[pid]
    violations = []  # (kind, replay payload, has_input)
    log = []
    drift, widen = source_drift(spec.get("cone", []))

    # (1) proofs: the property's own file Props/<pid>.lean (if any) plus the theorems of other
    # modules that the property's claim rests on (spec["theorems"] = [(module, [names…])…])
    module = f"PmVerif.Props.{pid}"
    prop_file = f"PmVerif/Props/{pid}.lean"
    have_props = os.path.exists(os.path.join(LEAN, prop_file))
    extra = spec.get("theorems", [])
    modules = ([module] if have_props else []) + [m for m, _ in extra]
    targets = ["pmdriver"] + modules
    ok_lean, lean_log = build_lean(targets)
    # property theorems follow the naming convention cNN_* / t<stage>_* / build_*; other
    # theorems in a Props file are local helpers (audited transitively through their users)
    PROP_NAME = re.compile(r"^(c\d\d_|tdom_|trun_|tsingle_|tnaive_|tpg_|tparse_|trender_|build_|mem_|satOrFalse_)")
    thms = [t for t in (theorems_of(prop_file) if have_props else []) if PROP_NAME.match(t)]
    thms_q = [f"Pm.{t}" if not t.startswith("Pm.") else t for t in thms]
    for m, names in extra:
        mf = m.replace(".", "/") + ".lean"
        avail = set(theorems_of(mf))
        for n in names:
            if n == "*":
                thms_q += [f"Pm.{t}" for t in sorted(avail) if PROP_NAME.match(t) and f"Pm.{t}" not in thms_q]
            else:
                thms_q.append(n if n.startswith("Pm.") else f"Pm.{n}")
    thms = [t[3:] if t.startswith("Pm.") else t for t in thms_q]
    audit_ok, axioms, audit_log = (True, {}, "")
    if ok_lean and thms:
        audit_ok, axioms, audit_log = axiom_audit(pid, thms_q, modules)
    # thorough tier: the toolchain's independent re-checker replays every declaration of the
    # property's modules through the kernel once more (imports trusted as compiled)
    recheck = None
    if ok_lean and tier == "thorough" and modules:
        r = run(["lake", "env", "leanchecker"] + modules, cwd=LEAN)
        recheck = {"cmd": "lake env leanchecker " + " ".join(modules), "rc": r.returncode,
                   "output": (r.stdout + r.stderr)[-1500:]}
        if r.returncode != 0:
            violations.append(("proof", {"what": "leanchecker rejects a compiled module", "log": recheck["output"]}, False))
    scan = source_scan()
    obligations = len(thms)
    discharged = len([t for t in thms_q if t in axioms and all(a in ALLOWED_AXIOMS for a in axioms[t])]) if ok_lean else 0
    if not ok_lean:
        violations.append(("proof", {"what": "lake build failed", "targets": targets, "log": lean_log[-4000:]}, False))
    elif not audit_ok:
        violations.append(("audit", {"what": "axiom audit failed", "axioms": axioms, "log": audit_log[-4000:]}, False))
    if scan:
        violations.append(("scan", {"what": "forbidden construct in Lean sources", "hits": scan}, False))

    # (3) harness
    ok_h, h_log = build_harness()
    stages_info = []
    evaluations = 0
    distinct = set()
    samples = []
    flags = {}
    known_seen = []
    oracle_evals = 0
    if not ok_h:
        violations.append(("harness-build", {"what": "harness does not build against /repo", "log": h_log[-4000:]}, False))
    elif ok_lean:
        known = load_known_findings()
        for st in spec["stages"]:
            stage, extra = (st, []) if isinstance(st, str) else (st[0], st[1])
            # a drifted source item in the cone: run the stages that exercise it with the thorough budget
            info, recs, verdicts = run_stage(stage, "thorough" if stage in widen else tier, seed, extra)
            info["widened_for_drift"] = stage in widen
            cl = classify(recs, verdicts, pid, spec)
            info.update({k: len(v) for k, v in cl.items()})
            stages_info.append(info)
            evaluations += len(recs)
            if info.get("timed_out"):
                violations.append(("oracle", {"stage": stage, "record": info["last_case_started"],
                                              "verdict": "C08 a case did not finish within the stage time limit (non-termination or blow-up); record = input of the case that was running",
                                              "property": pid}, bool(info["last_case_started"])))
            elif info["harness_rc"] != 0 or info["driver_rc"] != 0 or len(verdicts) != len(recs):
                violations.append(("pipeline", {"what": "harness or driver failed", "info": info}, False))
            for i, rec, v in cl["ok"]:
                toks = v.split()
                for f in toks[1:]:
                    flags[f] = flags.get(f, 0) + 1
                if "nt" in toks:
                    distinct.add(hashlib.md5(rec.split("=>")[0].encode()).digest())
            for i, rec, v in cl["known"]:
                item_pid, sig = v.split()[1], v.split()[2]
                listed = {f["signature"]: f for f in known.get("findings", [])
                          if f.get("property") == item_pid or item_pid in f.get("also", [])}
                if sig in listed:
                    known_seen.append((sig, listed[sig].get("what", "")))
                else:
                    violations.append(("oracle", {"stage": stage, "record": rec, "verdict": v + " (signature not listed in known_findings.json)", "property": pid}, True))
            # samples: prefer non-trivial cases
            nts = [x for x in cl["ok"] if "nt" in x[2].split()] or cl["ok"]
            for i, rec, v in nts[:: max(1, len(nts) // 3)][:3]:
                samples.append({"stage": stage, "record": rec[:600], "verdict": v[:200]})
            for i, rec, v in cl["oracle"]:
                violations.append(("oracle", {"stage": stage, "record": rec, "verdict": v, "property": pid}, True))
            for i, rec, v in cl["disagree"]:
                # where the property's theorems pin the output exactly (the model IS the
                # specification: c13_eq, c14_*, c16_*), a disagreement is itself a concrete input
                # on which the implementation departs from the proved behaviour
                exact = stage in spec.get("exact_stages", [])
                violations.append(("disagree", {"stage": stage, "record": rec, "verdict": v,
                                                "note": "implementation output differs from the output the theorems determine" if exact else
                                                "model/implementation disagreement"}, exact))
            for i, rec, v in cl["bad"]:
                violations.append(("pipeline", {"stage": stage, "record": rec[:2000], "verdict": v}, False))
            oracle_evals += len(cl["ok"]) + len(cl["oracle"]) + len(cl["known"])
            info["other_property_items"] = len(cl["other"])

    # (4) focused search. A disagreement between model and implementation is not by itself a
    # failing input of the property: rerun the pattern sets of the disagreeing end-to-end
    # records exhaustively (all heuristic answer strings up to a limit, all small hosts over the
    # patterns' alphabet) and let the driver's oracles look for one.
    focus_info = None
    if ok_h and ok_lean and violations and not any(v[2] for v in violations):
        prefixes = []
        for kind, payload, _ in violations:
            rec = payload.get("record", "") if isinstance(payload, dict) else ""
            t = rec.split(None, 2)
            if len(t) > 2 and t[0] == "E2E" and t[1] in ("S", "M", "G"):
                pre = rec.split("=>")[0].strip()
                if pre not in prefixes:
                    prefixes.append(pre)
        prefixes.sort(key=len)
        # a spread over sizes (shortest ... longest), not only the smallest pattern sets: a slip in
        # the port-graph conversion shows on hundreds of records, and only the larger patterns
        # (a line with two non-root nodes, several roots) admit a failing host
        is_pg = any(p.split(None, 2)[1] == "G" for p in prefixes)
        want = (6 if is_pg else 3) if tier == "quick" else (12 if is_pg else 8)
        if len(prefixes) > want:
            step = (len(prefixes) - 1) / (want - 1)
            prefixes = [prefixes[round(i * step)] for i in range(want)]
        if prefixes:
            os.makedirs(os.path.join(CACHE, "focus"), exist_ok=True)
            fpath = os.path.join(CACHE, "focus", f"{pid}.txt")
            with open(fpath, "w") as fh:
                fh.write("\n".join(prefixes) + "\n")
            info, recs, verdicts = run_stage("focus", tier, seed, [fpath])
            cl = classify(recs, verdicts, pid, spec)
            info.update({k: len(v) for k, v in cl.items()})
            info["focus_inputs"] = len(prefixes)
            focus_info = info
            stages_info.append(info)
            evaluations += len(recs)
            for i, rec, v in cl["oracle"][:20]:
                violations.append(("oracle", {"stage": "focus", "record": rec, "verdict": v, "property": pid,
                                              "note": "found by the focused search started from a model/implementation disagreement"}, True))
            if not cl["oracle"] and cl["other"]:
                # a failing input of a neighbouring property: not this property's replay, but
                # worth recording next to the disagreement
                i, rec, v = cl["other"][0]
                info["related_failure"] = {"verdict": v[:300], "record": rec[:3000]}

    repro_info = None
    if spec.get("special") == "repro" and ok_h:
        base, problems = run_repro(tier, seed)
        repro_info = {"cases": len(base), "processes": 3, "problems": problems[:5],
                      "static_scan": static_scan_nondeterminism()}
        evaluations += 3 * len(base)
        for ln in base[:: max(1, len(base) // 3)][:3]:
            samples.append({"stage": "cross.repro", "record": ln, "verdict": "identical in 3 processes"})
        for b in base:
            distinct.add(hashlib.md5(b.encode()).digest())
        for pr in problems:
            violations.append(("repro", {"stage": "cross.repro", "record": json.dumps(pr)[:1500],
                                         "verdict": "C17 " + pr["what"], "property": pid}, True))

    # known findings: a KNOWN line is printed by the driver only for listed signatures
    kf_lines = sorted(set(f"{sig} {what}" for sig, what in known_seen))

    # verdict
    rc = 0
    if violations:
        rc = 1
    wall = time.time() - t0
    evidence = {
        "property_id": pid,
        "tier": tier,
        "seed": seed,
        "level": spec["level"],
        "coverage": {
            "obligations": max(obligations, 1) if spec["level"] == "proof" else obligations,
            "discharged": discharged if obligations else (1 if ok_lean else 0),
            "checker_cmd": f"cd lean && lake build {' '.join(targets)} && lake env lean .cache/audit/Audit_{pid}.lean (#print axioms)",
            "trusted_base": spec.get("trusted_base", []) + [
                "Lean 4.33.0 kernel and elaborator",
                "axioms allowed: propext, Classical.choice, Quot.sound (audited per theorem)",
                "correspondence: harness/ (Rust, in-process calls of /repo), Driver/ (compiled Lean), check.py",
            ],
            "theorems": thms,
            "axioms": axioms,
            "partial": [t for t in thms if t.endswith("_partial")] + spec.get("targets", []),
            "evaluations": evaluations,
            "distinct_nontrivial": len(distinct),
            "rule": spec.get("rule", ""),
            "samples": samples,
            "stages": stages_info,
            "distribution": dict(sorted(flags.items(), key=lambda kv: -kv[1])[:60]),
            "oracle_evaluations": oracle_evals,
            "source_drift": drift,
            "known_findings_seen": kf_lines,
            "explanation": spec.get("explanation", ""),
            "repro": repro_info,
            "leanchecker": recheck,
            "focus": focus_info,
            "programs": evaluations,
            "disagreements_checked": evaluations,
        },
        "assumptions": spec.get("assumptions", []),
        "wall_s": round(wall, 2),
        "violations": len(violations),
    }
    os.makedirs(EVID, exist_ok=True)
    with open(os.path.join(EVID, f"{pid}.json"), "w") as fh:
        json.dump(evidence, fh, indent=1)

    for k in kf_lines:
        print(f"KNOWN-FINDING: property={pid} {k}")
    if violations:
        # one VIOLATION line; prefer a concrete failing input
        violations.sort(key=lambda v: (not v[2],))
        kind, payload, has_input = violations[0]
        payload = dict(payload)
        payload["property"] = pid
        payload["n_violations"] = len(violations)
        payload["other"] = [
            {"kind": k, "verdict": p.get("verdict", p.get("what", ""))[:300]} for k, p, _ in violations[1:20]
        ]
        if not has_input:
            payload["no_failing_input_found"] = True
            payload["what_no_longer_checks"] = payload.get("what") or payload.get("verdict")
        path = write_replay(pid, kind, payload)
        tail = "" if has_input else " no-failing-input-found"
        print(f"VIOLATION property={pid} replay={path}{tail}")
    else:
        print(f"OK property={pid} tier={tier} theorems={obligations} records={evaluations} wall={wall:.1f}s")
    return rc


def replay(pid, path):
    payload = json.load(open(path))
    rec = payload.get("record")
    if not rec:
        print(json.dumps(payload, indent=1)[:4000])
        print("replay: no record to re-run (no-failing-input-found)")
        return 1
    ok_lean, _ = build_lean(["pmdriver"])
    v = run_driver_on([rec])
    print("record :", rec[:2000])
    print("verdict as recorded (implementation output observed when the violation was found):")
    print("  ", v[0][:2000] if v else "<none>")
    rc = 0 if v and v[0].startswith("ok") else 1
    t = rec.split(None, 2)
    if len(t) > 2 and t[0] == "E2E" and t[1] in ("S", "M", "G"):
        # re-execute exactly this case (patterns, fallback mode, heuristic, hosts) on the
        # current tree and judge the fresh output
        ok_h, h_log = build_harness()
        if not ok_h:
            print("harness does not build against /repo:", h_log[-1500:])
            return 1
        os.makedirs(os.path.join(CACHE, "focus"), exist_ok=True)
        fpath = os.path.join(CACHE, "focus", f"replay_{pid}.txt")
        with open(fpath, "w") as fh:
            fh.write(rec.split("=>")[0].strip() + "\n")
        h = subprocess.run([HBIN, "rerun", fpath], capture_output=True, text=True, env=env())
        fresh = [l for l in h.stdout.splitlines() if l.startswith("E2E")]
        v2 = run_driver_on(fresh) if fresh else []
        print("verdict on the current tree (case re-executed):")
        print("  ", v2[0][:2000] if v2 else "<none: " + h.stdout[:300] + ">")
        spec = PROPS[pid]
        cl = classify(fresh, v2, pid, spec)
        rc = 1 if (cl["oracle"] or cl["disagree"] or cl["bad"] or not v2) else 0
    else:
        print("(stage-level record: it holds the implementation's output as observed; re-run the check to re-observe)")
    return rc


def setup():
    ok, log = build_lean(["PmVerif", "pmdriver"])
    if not ok:
        print(log[-6000:])
        return 1
    ok, log = build_harness()
    if not ok:
        print(log[-6000:])
        return 1
    print("setup ok")
    return 0


def main():
    a = sys.argv[1:]
    if not a:
        print(__doc__)
        return 2
    if a[0] == "--setup":
        return setup()
    pid = a[0]
    if pid not in PROPS:
        print(f"unknown property {pid}")
        return 2
    if "--replay" in a:
        return replay(pid, a[a.index("--replay") + 1])
    tier = os.environ.get("VERIF_TIER", "quick")
    if "--tier" in a:
        tier = a[a.index("--tier") + 1]
    seed = int(os.environ.get("VERIF_SEED", "1"))
    return check(pid, tier, seed)


if __name__ == "__main__":
    sys.exit(main())
