"""Per-property configuration of check.py: stages in the property's cone, level, notes."""

TB_EXTERNAL = [
    "modelled, not verified: hash-iteration order (explicit choice arguments), usize/isize as Nat/Int",
]

PROPS = {
    "C12": {
        "level": "proof",
        "stages": ["idx.missing"],
        "rule": "exhaustive: all prerequisite schemes on <=3 keys (cyclic ones included for model agreement) x all known sets x every key and every request list of length <=2; 4-key acyclic schemes (sample in quick, all in thorough); random DAGs on 3..9 keys. Non-trivial = output has >=2 keys; distinct by the record's input text.",
        "trusted_base": TB_EXTERNAL,
        "assumptions": [
            "the Lean model mbLoop/allMissingLoop is the code: checked by list-for-list agreement on every record",
            "the driver's checker checkMissing is evaluated on the implementation's own output for acyclic schemes",
        ],
        "anchors": ["indexing.missing_bindings", "indexing.all_missing_bindings"],
    },
    "C13": {
        "level": "proof",
        "stages": ["idx.bindall"],
        "rule": "table-domain hosts whose offers depend on earlier bindings: structured family (3 keys, 2 values, rule sets from a pool of 6, strict and non-strict) x starting bindings x key lists x both modes, plus random hosts (2..6 keys, 1..4 values), over FxHashMap and BTreeMap. Result lists compared in order. Non-trivial = at least 2 results; distinct by input text.",
        "trusted_base": TB_EXTERNAL,
        "assumptions": [
            "the Lean model bindAllLoop/extend is the code: checked by exact (ordered) agreement of the result lists",
        ],
        "anchors": ["indexing.bind_all"],
    },
    "C16": {
        "level": "proof",
        "stages": ["con"],
        "rule": "table domain with a recording predicate: 9 predicates (arities 0..4) x all argument lists of length 0..3 (4 in thorough) over 3 (4) keys x all partial bindings; built-in CharacterPredicate over String (ASCII and multi-byte hosts) and MatrixString with position maps. Record = try_new / try_binary_from_triple result, is_satisfied result incl. the unbound key, number of predicate invocations and the argument vectors seen. Non-trivial = try_new succeeded (is_satisfied exercised); distinct by input text.",
        "trusted_base": TB_EXTERNAL,
        "assumptions": [
            "the recording predicate's log is the observable for 'without invoking the predicate'",
            "PGPredicate is exercised in the port-graph stages (pg.*), not here",
        ],
        "anchors": ["constraint.try_new", "constraint.is_satisfied"],
    },
    "C14": {
        "level": "proof",
        "stages": ["maps"],
        "rule": "operation histories bind/retain_keys with get of every probe key after every step: exhaustive sequences of length <=4 (5 thorough) over an alphabet of 10 ops for FxHashMap, BTreeMap and StringPositionMap, length <=3 (4) over 12 ops for MatrixPositionMap; random histories (<=30 ops, 8 keys; matrix keys with negative offsets incl. the get-underflow panic); retain_keys on prerequisite-closed subsets of 12 string keys / a 4x4 matrix box in the real hash order (S4); non-closed sets as malformed stream. Non-trivial = history of >=2 ops; distinct by input text.",
        "trusted_base": TB_EXTERNAL + ["hashbrown iteration order for retain_keys on position maps is observed (logged order is fed to the model), not proved (DESIGN S4/c8)"],
        "assumptions": ["a panicking retain_keys ends the history (the map may be half-updated)"],
        "anchors": ["indexing.retain_keys", "string.StringPositionMap", "matrix.MatrixPositionMap"],
    },
    "C15": {
        "level": "proof",
        "stages": ["topo"],
        "rule": "real OnlineToposort on StableDiGraph<(),()>: every DAG on <=4 nodes (edges i->j, i<j, every node reachable) x every position of one edit group from a repertoire (add edge between any two nodes, add node below any node, remove any node, remove-and-re-add (index reuse), remove any edge), sampled (quick) or all (thorough) pairs of edit groups; random admissible histories generated online (the harness knows what was emitted); random builder-style histories. The scan order of the visited hash set is read through the verif_state hook before every next() and fed to the model; emitted node and ready stack are compared after every call; indices returned by add_node/add_edge are compared with the StableGraph model. Inadmissible histories (judged by the driver at each next call) only check model agreement and clauses 1-2. Non-trivial = >=1 edit and >=2 next calls; distinct by input text.",
        "trusted_base": TB_EXTERNAL + ["petgraph::StableGraph is modelled (Model/Graph.lean), cross-checked here index for index"],
        "assumptions": ["admissibility is evaluated at next() calls (edits happen between calls)"],
        "anchors": ["toposort.next"],
    },
    "C10": {
        "level": "proof",
        "stages": ["tree"],
        "rule": "real to_constraints_tree of CharacterPredicate over string and matrix keys on random constraint lists (0..6 constraints), helper constructors with random (also non-transitive) mutex relations, the table domain's four strategies incl. with_powerset with conditioning; exhaustively all lists of <=3 not-in constraints over one first key and 4 other keys (15+15^2+15^3, thorough; half of the triples in quick). Trees read back node for node and compared with the model; the oracle (valid indices, smallest present, reachLabel <-> constraint) is evaluated on the implementation's tree for every truth assignment of the constraints (depth-one trees) resp. all 729 bindings of 6 keys to 3 values (powerset trees). Non-trivial = tree with >=3 nodes; distinct by input text.",
        "trusted_base": TB_EXTERNAL,
        "assumptions": ["PGPredicate's own decomposition and conditioned() are exercised in the port-graph stage"],
        "anchors": ["constraint_tree.with_powerset", "string.to_constraints_tree"],
    },
    "C03": {
        "level": "proof",
        "stages": ["e2e.str", "e2e.mat", "e2e.table"],
        "oracle_ids": ["C03"],
        "cone": ["STR", "MAT", "TAB", "BUILD", "CON", "RUN", "SINGLE"],
        "rule": "random pattern sets (shared prefixes, duplicates, instances, empty patterns) with planted hosts; real ManyMatcher (Default / Never / Custom answer strings) vs real NaiveManyMatcher, per pattern id, as sets of complete match data; plus model-vs-implementation: exact replay of the build against the dumped automaton, model traversal on the dump, model baseline on the implementation's constraint vectors. Table domain: 5 constraint-tree strategies x random prerequisite DAGs x contract-conforming hosts. Non-trivial = at least one match, fuse or merge; distinct by input text.",
        "trusted_base": TB_EXTERNAL + ["FxHasher in visit() modelled as injective (S5)"],
        "assumptions": ["table hosts are generated contract-conforming (offers depend only on prerequisite values)"],
        "anchors": [],
    },
}
