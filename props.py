"""Per-property configuration of check.py: stages in the property's cone, level, notes."""

TB_EXTERNAL = [
    "modelled, not verified: hash-iteration order (explicit choice arguments), usize/isize as Nat/Int",
]

PROPS = {
    "C12": {
        "level": "proof",
        "stages": ["idx.missing"],
        "rule": "exhaustive: all prerequisite schemes on <=3 keys (cyclic ones included for model agreement) x all known sets x every key and every request list of length <=2; 4-key acyclic schemes (sample in quick, all in thorough); random DAGs on 3..9 keys. Non-trivial = output has >=2 keys; distinct by the record's input text.",
        "trusted_base": TB_EXTERNAL,
        "assumptions": [
            "the Lean model mbLoop/allMissingLoop is the code: checked by list-for-list agreement on every record",
            "the driver's checker checkMissing is evaluated on the implementation's own output for acyclic schemes",
        ],
        "anchors": ["indexing.missing_bindings", "indexing.all_missing_bindings"],
    },
    "C13": {
        "level": "proof",
        "stages": ["idx.bindall"],
        "rule": "table-domain hosts whose offers depend on earlier bindings: structured family (3 keys, 2 values, rule sets from a pool of 6, strict and non-strict) x starting bindings x key lists x both modes, plus random hosts (2..6 keys, 1..4 values), over FxHashMap and BTreeMap. Result lists compared in order. Non-trivial = at least 2 results; distinct by input text.",
        "trusted_base": TB_EXTERNAL,
        "assumptions": [
            "the Lean model bindAllLoop/extend is the code: checked by exact (ordered) agreement of the result lists",
        ],
        "anchors": ["indexing.bind_all"],
    },
}
