#!/usr/bin/env python3
"""Regenerates MANIFEST.json from manifest_src.py (claims, notes) — keeps it schema-valid."""
import json, subprocess, os
from manifest_src import CLAIMS, NOT_APPLICABLE, NOTES
ROOT = os.path.dirname(os.path.abspath(__file__))
hooks_commits = subprocess.run(
    ["git", "-C", "/repo", "log", "--format=%h %s", "--grep=^verif hooks"],
    capture_output=True, text=True).stdout.strip().splitlines()
m = {
    "version": 1,
    "setup_cmd": "python3 check.py --setup",
    "hooks": {
        "guard": "verif (cargo feature)",
        "enable": "cargo build --features portgraph,verif (the harness crate depends on /repo with these features)",
        "baseline_off_cmd": "cd /repo && cargo test --workspace --no-fail-fast --offline",
        "source_commits": [c.split()[0] for c in hooks_commits],
        "add_only": True,
    },
    "engines": [
        {"name": "lean", "path": "lean/PmVerif", "kind_free_text": "Lean 4 model (Model/), specifications (Spec/), property theorems (Props/); kernel-checked by lake build, axioms audited", "serves_properties": sorted(CLAIMS)},
        {"name": "harness", "path": "harness", "kind_free_text": "Rust crate calling /repo in-process (features portgraph,verif); prints one record per case", "serves_properties": sorted(CLAIMS)},
        {"name": "driver", "path": "lean/Driver", "kind_free_text": "compiled Lean executable: recomputes each record with the model and evaluates the spec oracles on the implementation's output", "serves_properties": sorted(CLAIMS)},
    ],
    "checks": [],
    "notes": NOTES,
    "not_applicable": NOT_APPLICABLE,
}
for pid in sorted(CLAIMS):
    c = CLAIMS[pid]
    m["checks"].append({
        "property_id": pid,
        "quick_cmd": f"python3 check.py {pid} --tier quick",
        "thorough_cmd": f"python3 check.py {pid} --tier thorough",
        "evidence_file": f"/verif/evidence/{pid}.json",
        "replay_cmd_template": f"python3 check.py {pid} --replay {{path}}",
        "engine": "lean+harness+driver",
        "level_claimed": {"category": c["category"], "text": c["text"], "design_ref": c["design_ref"]},
        "level_note": c["note"],
        "technique": c["technique"],
    })
json.dump(m, open(os.path.join(ROOT, "MANIFEST.json"), "w"), indent=1)
print("MANIFEST.json written:", len(m["checks"]), "checks,", len(NOT_APPLICABLE), "not applicable")
