#!/usr/bin/env python3
"""Source anchors: which Rust items the Lean model models, definition by definition, with a hash
of the Rust item's source text (DESIGN §0, §9.2-8).

    python3 anchors_src.py --write     recompute the hashes from /repo and write anchors.json
    python3 anchors_src.py             print the drift of /repo's working tree against anchors.json

check.py calls `drift()` on every run: an item whose text changed since the model was written
(or that can no longer be found) is listed in the evidence (`source_drift`) and the correspondence
stages that exercise it are run with the thorough budget even in the quick tier. Drift is not a
violation: the exact replay / stage records decide whether the behaviour still agrees.

Each row: (rust file, fn name, occurrence among the non-test `fn <name>` items of that file,
           stage (DESIGN §1), Lean definitions that model it)
"""
import hashlib, json, os, re, sys

ROOT = os.path.dirname(os.path.abspath(__file__))
REPO = "/repo"

ROWS = [
    # IDX
    ("src/indexing.rs", "missing_bindings", 0, "IDX", ["Model/Indexing: mbLoop, missingBindings"]),
    ("src/indexing.rs", "all_missing_bindings", 0, "IDX", ["Model/Indexing: allMissingLoop, allMissingBindings"]),
    ("src/indexing.rs", "bind_all", 0, "IDX", ["Model/Indexing: extend, bindAllLoop, bindAll"]),
    # MAP
    ("src/indexing.rs", "bind", 0, "MAP", ["Model/BindMap: alBind (trait default / HashMap)"]),
    ("src/indexing.rs", "bind", 1, "MAP", ["Model/BindMap: alBind (BTreeMap / HashMap impl)"]),
    ("src/indexing.rs", "bind", 2, "MAP", ["Model/BindMap: alBind"]),
    ("src/indexing.rs", "get", 0, "MAP", ["Model/BindMap: alGet"]),
    ("src/indexing.rs", "get", 1, "MAP", ["Model/BindMap: alGet"]),
    ("src/indexing.rs", "retain_keys", 0, "MAP", ["Model/BindMap: retainDefault"]),
    ("src/indexing.rs", "retain_keys", 1, "MAP", ["Model/BindMap: alRetain"]),
    ("src/indexing.rs", "retain_keys", 2, "MAP", ["Model/BindMap: alRetain"]),
    ("src/string.rs", "get", 0, "MAP", ["Model/BindMap: StrPos.get"]),
    ("src/string.rs", "bind", 0, "MAP", ["Model/BindMap: StrPos.bind"]),
    ("src/string.rs", "start_pos", 0, "MAP", ["Model/BindMap: StrPos"]),
    ("src/matrix.rs", "get", 0, "MAP", ["Model/BindMap: MatPos.getP, MatPos.get, addSigned"]),
    ("src/matrix.rs", "bind", 0, "MAP", ["Model/BindMap: MatPos.bind"]),
    ("src/matrix.rs", "start_pos", 0, "MAP", ["Model/BindMap: MatPos"]),
    ("src/matrix.rs", "cwise_max", 0, "MAP", ["Model/BindMap: MatPos.bind"]),
    ("src/matrix.rs", "cwise_min", 0, "MAP", ["Model/BindMap: MatPos.bind"]),
    # CON
    ("src/constraint.rs", "try_new", 0, "CON", ["Model/Constraint: tryNew"]),
    ("src/constraint.rs", "try_binary_from_triple", 0, "CON", ["Model/Constraint: tryBinaryFromTriple"]),
    ("src/constraint.rs", "is_satisfied", 0, "CON", ["Model/Constraint: resolveArgs, isSatisfied, isSatisfiedLog"]),
    ("src/constraint.rs", "make_det", 0, "CON", ["Model/Constraint: DetHeuristic.makeDet"]),
    # STR
    ("src/string.rs", "required_bindings", 0, "STR", ["Model/StringDom: strReq"]),
    ("src/string.rs", "list_bind_options", 0, "STR", ["Model/StringDom: strOpts, strByteLen, utf8Len"]),
    ("src/string/predicate.rs", "check", 0, "STR", ["Model/StringDom: strCheck"]),
    ("src/string/predicate.rs", "arity", 0, "STR", ["Model/StringDom: CharPred.arity"]),
    ("src/string/pattern.rs", "try_to_constraint_vec", 0, "STR", ["Model/StringDom: charVarLoop, strConstraints"]),
    ("src/string/constraint.rs", "to_constraints_tree", 0, "TREE", ["Model/Tree: charTree"]),
    ("src/string/constraint.rs", "cmp", 0, "TREE", ["Model/Tree: charTree (order of constraints)"]),
    # MAT
    ("src/matrix.rs", "required_bindings", 0, "MAT", ["Model/MatrixDom: matReq"]),
    ("src/matrix.rs", "list_bind_options", 0, "MAT", ["Model/MatrixDom: matOptsP, matOpts, matAllCells"]),
    ("src/matrix.rs", "check", 0, "MAT", ["Model/MatrixDom: matCheck, matCell"]),
    ("src/matrix/pattern.rs", "try_to_constraint_vec", 0, "MAT", ["Model/MatrixDom: matConstraints"]),
    ("src/matrix/pattern.rs", "enumerate", 0, "MAT", ["Model/MatrixDom: matEnumerate"]),
    # TREE
    ("src/constraint_tree.rs", "get_or_add_child", 0, "TREE", ["Model/Tree: getOrAddChild"]),
    ("src/constraint_tree.rs", "add_constraint_index", 0, "TREE", ["Model/Tree: addLabel"]),
    ("src/constraint_tree.rs", "with_children", 0, "TREE", ["Model/Tree: withChildren"]),
    ("src/constraint_tree/build.rs", "with_pairwise_mutex", 0, "TREE", ["Model/Tree: withPairwiseMutex"]),
    ("src/constraint_tree/build.rs", "with_transitive_mutex", 0, "TREE", ["Model/Tree: withTransitiveMutex"]),
    ("src/constraint_tree/build.rs", "with_powerset", 0, "TREE", ["Model/Tree: powersetLoop, withPowerset, sortWithIndices"]),
    ("src/constraint_tree/build.rs", "add_implied_constraints", 0, "TREE", ["Model/Tree: addImplied"]),
    # TOPO
    ("src/utils/toposort.rs", "next", 0, "TOPO", ["Model/Toposort: next, refill"]),
    ("src/utils/toposort.rs", "is_ready", 0, "TOPO", ["Model/Toposort: isReady"]),
    ("src/utils/toposort.rs", "node_is_ready", 0, "TOPO", ["Model/Toposort: isReady"]),
    ("src/utils/toposort.rs", "is_queued_or_visited", 0, "TOPO", ["Model/Toposort: refill"]),
    ("src/utils/toposort.rs", "new", 0, "TOPO", ["Model/Toposort: new"]),
    ("src/utils/toposort.rs", "from_iter", 0, "TOPO", ["Model/Toposort: fromIter"]),
    # MOD
    ("src/automaton/builder/modify.rs", "add_non_det_node", 0, "BUILD", ["Model/Automaton: addNonDetNode"]),
    ("src/automaton/builder/modify.rs", "set_deterministic", 0, "BUILD", ["Model/Automaton: setDeterministic"]),
    ("src/automaton/builder/modify.rs", "append_edge", 0, "BUILD", ["Model/Automaton: appendEdge"]),
    ("src/automaton/builder/modify.rs", "add_transition", 0, "BUILD", ["Model/Automaton: addTransition"]),
    ("src/automaton/builder/modify.rs", "add_constraint", 0, "BUILD", ["Model/Automaton: addTransition"]),
    ("src/automaton/builder/modify.rs", "drain_constraints", 0, "BUILD", ["Model/Automaton: drainLoop, drainConstraints"]),
    ("src/automaton/builder/modify.rs", "remove_transition", 0, "BUILD", ["Model/Automaton: removeTransition"]),
    ("src/automaton/builder/modify.rs", "remove_state", 0, "BUILD", ["Model/Automaton: removeState"]),
    ("src/automaton/builder/modify.rs", "split_target", 0, "BUILD", ["Model/Automaton: splitTarget, cloneOutgoing, rewireTarget"]),
    ("src/automaton/builder/modify.rs", "move_incoming", 0, "BUILD", ["Model/Automaton: moveIncomingLoop, moveIncoming"]),
    ("src/automaton/builder/modify.rs", "clone_outgoing", 0, "BUILD", ["Model/Automaton: cloneOutgoing, appendCopies"]),
    ("src/automaton/builder/modify.rs", "add_match", 0, "BUILD", ["Model/Automaton: addMatch"]),
    ("src/automaton/builder/modify.rs", "add_pattern", 0, "BUILD", ["Model/Builder: addPatternLoop, addPattern"]),
    ("src/automaton/builder/modify.rs", "rewire_target", 0, "BUILD", ["Model/Automaton: rewireTarget"]),
    ("src/automaton/builder/modify.rs", "remove_order", 0, "BUILD", ["Model/Automaton: removeTransition"]),
    ("src/automaton/builder/modify.rs", "replace_order", 0, "BUILD", ["Model/Automaton: replaceFirst, rewireTarget"]),
    ("src/automaton/view.rs", "all_transitions", 0, "BUILD", ["Model/Automaton: allTransitions"]),
    ("src/automaton/view.rs", "all_constraint_transitions", 0, "BUILD", ["Model/Automaton: corderOf"]),
    ("src/automaton/view.rs", "all_epsilon_transitions", 0, "BUILD", ["Model/Automaton: eorderOf"]),
    ("src/automaton/view.rs", "fail_next_state", 0, "RUN", ["Model/Automaton: failNextState"]),
    ("src/automaton/view.rs", "incoming_transitions", 0, "BUILD", ["Model/Automaton: incomingTransitions"]),
    ("src/automaton/view.rs", "is_unreachable", 0, "BUILD", ["Model/Automaton: isUnreachable"]),
    ("src/automaton/view.rs", "state_tuple", 0, "BUILD", ["Model/Builder: tupleTransitions, sameTuple"]),
    ("src/automaton/view.rs", "constraints", 0, "BUILD", ["Model/Automaton: constraintsAt"]),
    # BUILD
    ("src/automaton/builder.rs", "add_pattern", 0, "BUILD", ["Model/Builder: addPatternLoop, addPattern"]),
    ("src/automaton/builder.rs", "finish_with_det_heuristic", 0, "BUILD", ["Model/Builder: iterationL, mainLoopL, finishL; Model/BuilderT: iterationWith, mainLoopWith, buildTL"]),
    ("src/automaton/builder.rs", "make_constraints_unique", 0, "BUILD", ["Model/Builder: groupTransitions, fuseGroup, fuseLogged, makeConstraintsUnique, absorbChildren"]),
    ("src/automaton/builder.rs", "insert_constraint_tree", 0, "BUILD", ["Model/Builder: insertConstraintTree"]),
    ("src/automaton/builder.rs", "add_constraint_tree", 0, "BUILD", ["Model/Builder: treeChildren, treeLoop, addConstraintTree"]),
    ("src/automaton/builder.rs", "make_det", 0, "BUILD", ["Model/Builder: makeDetLoop, makeDetWith, makeDetL"]),
    ("src/automaton/builder.rs", "try_merge_new_nodes", 0, "BUILD", ["Model/Builder: mergesLogged, doMerge, mergeLoop; Model/BuilderT: mergeAdmissible (one-sided, DESIGN 9.2-1)"]),
    ("src/automaton/builder.rs", "find_mergeable_nodes", 0, "BUILD", ["Model/BuilderT: siblingsOf, mergeAdmissible; Model/Builder: sameTuple, pathExists"]),
    ("src/automaton/builder.rs", "populate_scopes", 0, "BUILD", ["Model/Builder: forwardScopes, backwardScopes, setScopes, populateScopes, topoOrder"]),
    ("src/automaton/builder.rs", "compute_scopes", 0, "BUILD", ["Model/Builder: populateScopes"]),
    ("src/automaton/builder.rs", "add_fail", 0, "BUILD", ["Model/Automaton: addTransition (fallback)"]),
    # RUN
    ("src/automaton/traversal.rs", "next", 0, "RUN", ["Model/Traversal: runLoop, run, emitMatches"]),
    ("src/automaton/traversal.rs", "next", 1, "RUN", ["Model/Traversal: runLoop"]),
    ("src/automaton/traversal.rs", "next_legal_states", 0, "RUN", ["Model/Traversal: legalFrom, legalAll, nextLegalStates"]),
    ("src/automaton/traversal.rs", "visit", 0, "RUN", ["Model/Traversal: visitKey"]),
    ("src/automaton/traversal.rs", "bindings_hash", 0, "RUN", ["Model/Traversal: visitKey (hash modelled as injective)"]),
    ("src/automaton/traversal.rs", "run", 0, "RUN", ["Model/Traversal: run"]),
    # SINGLE / MANY
    ("src/matcher/single_pattern.rs", "get_all_bindings", 0, "SINGLE", ["Model/TraversalX: singleLoopX, finishCandidate"]),
    ("src/matcher/single_pattern.rs", "find_matches", 0, "SINGLE", ["Model/TraversalX: singleMatchesX"]),
    ("src/matcher/single_pattern.rs", "match_exists", 0, "SINGLE", ["Model/TraversalX: singleMatchesX"]),
    ("src/matcher/single_pattern.rs", "try_from_pattern_with_indexing", 0, "SINGLE", ["Model/Traversal: requestedBindings"]),
    ("src/matcher/many_patterns/naive.rs", "find_matches", 0, "SINGLE", ["Model/TraversalX: naiveMatchesX"]),
    ("src/matcher/many_patterns/naive.rs", "try_from_patterns_with_indexing", 0, "SINGLE", ["Model/TraversalX: naiveMatchesX (ids = positions)"]),
    ("src/matcher/many_patterns/automaton.rs", "try_from_patterns_with_det_heuristic", 0, "MANY", ["Model/ManyMatcher: manyInputs, manyBuild; Model/ManyTL: manyBuildTL"]),
    ("src/matcher/many_patterns/automaton.rs", "find_matches", 0, "MANY", ["Model/ManyMatcher: Many.findMatches"]),
    ("src/matcher/many_patterns/automaton.rs", "get_pattern", 0, "MANY", ["Model/ManyMatcher: Many.hasPattern"]),
    ("src/matcher/many_patterns/automaton.rs", "n_patterns", 0, "MANY", ["Model/ManyMatcher: Many.nPatterns"]),
    # PG
    ("src/portgraph/indexing.rs", "required_bindings", 0, "PG", ["Model/PGIndexing: pgReq"]),
    ("src/portgraph/indexing.rs", "list_bind_options", 0, "PG", ["Model/PGIndexing: pgOptsP, pgOpts"]),
    ("src/portgraph/indexing.rs", "list_bind_options", 1, "PG", ["Model/PGIndexing: pgOptsP, pgOpts"]),
    ("src/portgraph/indexing.rs", "walk_path", 0, "PG", ["Model/PGIndexing: walkPathFrom, walkPath"]),
    ("src/portgraph/indexing.rs", "walk_path_nodes", 0, "PG", ["Model/PGIndexing: walkPathNodes"]),
    ("src/portgraph/indexing.rs", "cmp_key", 0, "PG", ["Model/PortGraph: PGKey.lt"]),
    ("src/portgraph/root_candidates.rs", "find_root_candidates", 0, "PG", ["Model/PGIndexing: findRootCandidates"]),
    ("src/portgraph/root_candidates.rs", "nodes_with_free_ports", 0, "PG", ["Model/PGIndexing: nodesWithFreePorts"]),
    ("src/portgraph/root_candidates.rs", "traverse_path_neighbour_type", 0, "PG", ["Model/PGIndexing: traverseNeighbour"]),
    ("src/portgraph/constraint.rs", "constraint_vec", 0, "PG", ["Model/PGPattern: consLine, consLines, pgConstraints"]),
    ("src/portgraph/constraint.rs", "conditioned", 0, "PG", ["Model/PGPattern: pgCond"]),
    ("src/portgraph/constraint.rs", "to_constraints_tree", 0, "PG", ["Model/PGPattern: pgTree"]),
    ("src/portgraph/constraint.rs", "max_key", 0, "PG", ["Model/PGPattern: maxKey"]),
    ("src/portgraph/constraint.rs", "cmp", 0, "PG", ["Model/PGPattern: pgConsLe"]),
    ("src/portgraph/constraint/mutex.rs", "mutex_filter", 0, "PG", ["Model/PGPattern: pgTree (mutex filter)"]),
    ("src/portgraph/constraint/mutex.rs", "fst_required_binding_eq", 0, "PG", ["Model/PGPattern: fstArgEq"]),
    ("src/portgraph/predicate.rs", "check", 0, "PG", ["Model/PortGraph: pgCheck"]),
    ("src/portgraph/predicate.rs", "check", 1, "PG", ["Model/PortGraph: pgCheck"]),
    ("src/portgraph/predicate.rs", "arity", 0, "PG", ["Model/PortGraph: PGPred.arity"]),
    ("src/portgraph/predicate.rs", "has_edge", 0, "PG", ["Model/PortGraph: pgCheck (isConnected)"]),
    ("src/utils/portgraph.rs", "line_partition", 0, "PG", ["Model/PGPattern: extendLine, linePartitionLoop, linePartition"]),
    ("src/portgraph/pattern.rs", "try_to_constraint_vec", 0, "PG", ["Model/PGPattern: pgConstraints"]),
]

# which correspondence stages exercise which model stage (for widening on drift)
STAGE_RUNS = {
    "IDX": ["idx.missing", "idx.bindall"], "MAP": ["maps"], "CON": ["con"], "TREE": ["tree"],
    "TOPO": ["topo"], "STR": ["e2e.str", "con"], "MAT": ["e2e.mat", "con"],
    "BUILD": ["e2e.str", "e2e.mat", "e2e.pg", "e2e.table"], "RUN": ["e2e.str", "e2e.mat", "e2e.pg", "e2e.table"],
    "SINGLE": ["e2e.str", "e2e.mat", "e2e.pg", "e2e.table"], "MANY": ["e2e.str", "e2e.mat", "e2e.pg", "cross.sets"],
    "PG": ["pg.stages", "e2e.pg"],
}


def strip_tests(txt):
    m = re.search(r"#\[cfg\(test\)\]\s*(pub(\([a-z:]+\))?\s+)?mod\b", txt)
    return txt[:m.start()] if m else txt


def extract(txt, name, occ):
    """Text of the occ-th `fn <name>` item (signature through the matching closing brace, or the
    terminating `;` of a bodiless trait method) of the non-test part of a file; None if absent."""
    body = strip_tests(txt)
    ms = [m for m in re.finditer(r"\bfn\s+" + re.escape(name) + r"\b", body)]
    if occ >= len(ms):
        return None
    i = ms[occ].start()
    depth = 0
    j = i
    in_str = False
    while j < len(body):
        c = body[j]
        if in_str:
            if c == "\\":
                j += 1
            elif c == '"':
                in_str = False
        elif c == '"':
            in_str = True
        elif c == "/" and body[j:j + 2] == "//":
            j = body.find("\n", j)
            if j < 0:
                break
        elif c == "'" and re.match(r"'(\\.|[^\\'])'", body[j:j + 4]):
            j += len(re.match(r"'(\\.|[^\\'])'", body[j:j + 4]).group(0)) - 1
        elif c == "{":
            depth += 1
        elif c == "}":
            depth -= 1
            if depth == 0:
                return body[i:j + 1]
        elif c == ";" and depth == 0:
            return body[i:j + 1]
        j += 1
    return None


def norm(s):
    return "\n".join(l.rstrip() for l in s.splitlines())


def current():
    out = {}
    cache = {}
    for f, name, occ, stage, lean in ROWS:
        p = os.path.join(REPO, f)
        if p not in cache:
            try:
                cache[p] = open(p).read()
            except OSError:
                cache[p] = None
        t = extract(cache[p], name, occ) if cache[p] is not None else None
        key = f"{f}::{name}#{occ}"
        out[key] = {"file": f, "fn": name, "occurrence": occ, "stage": stage, "lean": lean,
                    "sha": hashlib.sha256(norm(t).encode()).hexdigest()[:16] if t is not None else None,
                    "lines": len(t.splitlines()) if t is not None else 0}
    return out


def drift():
    """[(key, stage, what)] for every anchored item whose text differs from anchors.json."""
    p = os.path.join(ROOT, "anchors.json")
    if not os.path.exists(p):
        return [("anchors.json", "*", "missing")]
    rec = json.load(open(p))["anchors"]
    cur = current()
    out = []
    for k, ent in rec.items():
        c = cur.get(k)
        if c is None or c["sha"] is None:
            out.append((k, ent["stage"], "item not found"))
        elif c["sha"] != ent["sha"]:
            out.append((k, ent["stage"], "text changed"))
    return out


def summary():
    p = os.path.join(ROOT, "anchors.json")
    rec = json.load(open(p))["anchors"] if os.path.exists(p) else {}
    return {"items": len(rec), "rust_lines_anchored": sum(e.get("lines", 0) for e in rec.values())}


if __name__ == "__main__":
    if "--write" in sys.argv:
        cur = current()
        missing = [k for k, v in cur.items() if v["sha"] is None]
        if missing:
            print("not found:", missing)
            sys.exit(1)
        json.dump({"note": "generated by anchors_src.py --write from /repo at the commit the model was validated against",
                   "anchors": cur}, open(os.path.join(ROOT, "anchors.json"), "w"), indent=1, sort_keys=True)
        print("wrote", len(cur), "anchors,", sum(v["lines"] for v in cur.values()), "Rust lines")
    else:
        d = drift()
        for k, st, w in d:
            print(f"DRIFT {st} {k}: {w}")
        print("drifted:", len(d))
